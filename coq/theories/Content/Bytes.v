(** Content/Bytes.v — OpBuilder::parse on BYTES: the token loop of content.rs modelled on the shared lexer and
    parser models (Lex/Lexer.v: Lexer::next, Syn/Parser.v: parse_with_lexer), instead of on an already lexed stream.

    Every definition names its Rust anchor.  No proofs in this file.

    The operands the shared parser returns ([Syn.Prim.prim]) are converted to the content model's operands
    ([Content.Model.prim]) by [of_syn]; [to_syn] is the converse embedding (Content/BytesProofs.v proves
    [of_syn (to_syn p) = Ok p] on the operands the serializer writes).  A real number is carried by both models as
    decimal text; [fl_of_text] is the f32 that text denotes in the content model's convention (a text without '.'
    denotes the integral value, a leading '+' is dropped). *)
From Coq Require Import String.
From PdfV Require Import Base.Prelude Gen.Generated Content.Model.
From PdfV Require Lex.Lexer Lex.StrLexer Syn.Prim Syn.Utf8 Syn.Parser.
Open Scope N_scope.

(* ------------------------------------------------------------------ *)
(** * operands: Syn.Prim.prim <-> Content.Model.prim *)

Definition strip_plus (t : bytes) : bytes :=
  match t with c :: r => if c =? 43 then r else t | [] => t end.

(* str::parse::<f32> of a lexed number, as the content model carries an f32 *)
Definition fl_of_text (t : bytes) : fl :=
  let u := strip_plus t in
  if memN 46 u then FReal u
  else
    let z := Z_of_dec u in
    (* "-0", "-000": negative zero *)
    if Z.eqb z 0 && match u with c :: _ => c =? 45 | [] => false end then FReal neg_zero else FInt z.

Fixpoint of_syn (v : Prim.prim) : res prim :=
  match v with
  | Prim.PNull => Ok PNull
  | Prim.PBool b => Ok (PBool b)
  | Prim.PInt z => Ok (PInt z)
  | Prim.PReal t => Ok (PReal (fl_of_text t))
  | Prim.PName n => Ok (PName n)
  | Prim.PStr s => Ok (PStr s)
  | Prim.PArr l =>
      let fix items (l : list Prim.prim) : res (list prim) :=
        match l with
        | [] => Ok []
        | x :: t => do a <- of_syn x; do r <- items t; Ok (a :: r)
        end in
      do r <- items l; Ok (PArr r)
  | Prim.PDict d =>
      let fix entries (d : list (bytes * Prim.prim)) : res (list (bytes * prim)) :=
        match d with
        | [] => Ok []
        | (k, x) :: t => do a <- of_syn x; do r <- entries t; Ok ((k, a) :: r)
        end in
      do r <- entries d; Ok (PDict r)
  (* Primitive::Reference / Stream operands: outside the content model's operand type (never generated) *)
  | _ => Err E_UNMODELLED
  end.

Fixpoint to_syn (p : prim) : Prim.prim :=
  match p with
  | PNull => Prim.PNull
  | PBool b => Prim.PBool b
  | PInt z => Prim.PInt z
  | PReal f => Prim.PReal (fl_fmt f)
  | PName n => Prim.PName n
  | PStr s => Prim.PStr s
  | PArr l => Prim.PArr (List.map to_syn l)
  | PDict d =>
      Prim.PDict ((fix entries (d : list (bytes * prim)) : list (bytes * Prim.prim) :=
                     match d with [] => [] | (k, x) :: t => (k, to_syn x) :: entries t end) d)
  end.

(* ------------------------------------------------------------------ *)
(** * lexer/mod.rs: Lexer::seek_substr — first occurrence of [pat] in [l]: the number of bytes before it *)

Fixpoint starts_with (pat l : bytes) : bool :=
  match pat, l with
  | [], _ => true
  | p :: pt, b :: t => (p =? b) && starts_with pt t
  | _ :: _, [] => false
  end.

Fixpoint find_sub (pat l : bytes) : option nat :=
  if starts_with pat l then Some O
  else match l with
       | [] => None
       | _ :: t => match find_sub pat t with Some n => Some (S n) | None => None end
       end.

Definition kw_ID : bytes := kw_name KID.
Definition kw_BI : bytes := kw_name KBI.
Definition nl_EI : bytes := [10; 69; 73].    (* "\nEI" *)

(* parse_with_lexer(lexer, &NoResolve / resolve, ParseFlags::ANY): no stream context; the resolver is only consulted
   for a stream's /Length, which needs a context *)
Definition parse_obj (s : Lexer.lx) : res (Prim.prim * Lexer.lx) :=
  Parser.parse_ctx Parser.no_resolve None F_ANY MAX_DEPTH s.

(* ------------------------------------------------------------------ *)
(** * content.rs: inline_image, up to the key-expanded dictionary and the data (the typed reading of the
    dictionary is Content/Image.v).  Result: the outcome and the lexer state the caller continues from. *)

Fixpoint image_dict (fuel : nat) (dict : list (bytes * prim)) (s : Lexer.lx)
  : res (list (bytes * prim)) * Lexer.lx :=
  match fuel with
  | O => (OutOfFuel, s)
  | S f =>
      match parse_obj s with
      | Ok (Prim.PName k, s1) =>
          match parse_obj s1 with
          | Ok (v, s2) =>
              match of_syn v with
              | Ok p => image_dict f (dict_insert (expand_abbr_name k inline_key_abbr) p dict) s2
              | Err e => (Err e, s2) | Panic x => (Panic x, s2) | OutOfFuel => (OutOfFuel, s2)
              end
          | Err e => (Err e, s1)          (* `?`: parse_with_lexer has put the lexer back to where the value began *)
          | Panic x => (Panic x, s1)
          | OutOfFuel => (OutOfFuel, s1)
          end
      | Ok (_, s1) => (Err E_OTHER, s1)   (* bail!("invalid key type") *)
      | Err e => if e =? Lexer.E_EOF then (Err e, s) else (Ok dict, s)   (* set_pos(backup_pos); break *)
      | Panic x => (Panic x, s)
      | OutOfFuel => (OutOfFuel, s)
      end
  end.

(* the part of inline_image that reads the lexer: dictionary, `ID`, data up to "\nEI" *)
Definition image_read (s : Lexer.lx) : res (list (bytes * prim) * bytes) * Lexer.lx :=
  match image_dict (S (length (Lexer.lrest s))) [] s with
  | (Ok dict, s1) =>
      match Lexer.next s1 with
      | Ok (w, s2) =>
          if negb (beqb w kw_ID) then (Err E_OTHER, s2)        (* next_expect("ID") *)
          else
            match find_sub nl_EI (Lexer.lrest s2) with
            | None => (Err E_OTHER, Lexer.mkLx (Lexer.lpos s2 + lenN (Lexer.lrest s2)) [])   (* seek_substr ran to the end *)
            | Some n =>
                let after := Lexer.advance s2 (N.of_nat n + 3) in
                (* data_start = pos + 1, data_end = pos' - 3; new_substr turns a backward range (n = 0) around *)
                let data := match n with
                            | O => firstn 1 (skipn 1 (Lexer.lrest s2))
                            | S m => firstn m (skipn 1 (Lexer.lrest s2))
                            end in
                (Ok (dict, data), after)
            end
      | Err e => (Err e, s1)
      | Panic x => (Panic x, s1)
      | OutOfFuel => (OutOfFuel, s1)
      end
  | (Err e, s1) => (Err e, s1)
  | (Panic x, s1) => (Panic x, s1)
  | (OutOfFuel, s1) => (OutOfFuel, s1)
  end.

(* ------------------------------------------------------------------ *)
(** * content.rs: OpBuilder::parse — the `loop` over the lexer.

    [img] is the typed reading of an inline image (Content/Image.v: [image_typed]); this file's entry point
    [parse_bytes_raw] passes the identity (dictionary and data as read).
    The position test after each step (`lexer.get_pos().cmp(&data.len())`) is made on the remaining buffer: the
    lexer never moves past the end of its buffer ([lrest] = buf[pos..]), so `Equal` is [lrest = []] and `Greater`
    does not occur. *)
Section Loop.
  Variable img : list (bytes * prim) -> bytes -> res op.

  Fixpoint parse_loop (fuel : nat) (st : bst) (buf : list prim) (s : Lexer.lx) : res (list op) :=
    match fuel with
    | O => OutOfFuel
    | S f =>
        let continue (st' : bst) (buf' : list prim) (s' : Lexer.lx) : res (list op) :=
          match Lexer.lrest s' with [] => Ok [] | _ :: _ => parse_loop f st' buf' s' end in
        match parse_obj s with
        | Ok (v, s1) => do p <- of_syn v; continue st (buf ++ [p]) s1          (* buffer.push(obj) *)
        | Err e =>
            if e =? Lexer.E_EOF then Ok []                                       (* e.is_eof(): break *)
            else
              (* lexer.set_pos(backup_pos); lexer.next(); op.as_str() *)
              do (w, s1) <- Lexer.next s;
              if negb (Utf8.is_utf8 w) then Err Lexer.E_PARSE
              else if beqb w kw_BI then
                (* the "BI" arm of add: the operands are dropped, inline_image reads the lexer *)
                let '(r, s2) := image_read s1 in
                match (do (dict, data) <- r; img dict data) with
                | Ok o => do rest <- continue st [] s2; Ok (o :: rest)
                | Err e => if allow_invalid_ops then continue st [] s2 else Err e
                | Panic x => Panic x
                | OutOfFuel => OutOfFuel
                end
              else
                let '(pushed, out) := add_word w buf st in                       (* buffer.drain(..) *)
                match out with
                | Ok st' => do rest <- continue st' [] s1; Ok (pushed ++ rest)
                | Err e => if allow_invalid_ops then do rest <- continue st [] s1; Ok (pushed ++ rest) else Err e
                | Panic x => Panic x
                | OutOfFuel => OutOfFuel
                end
        | Panic x => Panic x
        | OutOfFuel => OutOfFuel
        end
    end.

  (* content.rs: parse_ops(data, resolve) *)
  Definition parse_bytes_with (data : bytes) : res (list op) :=
    match data with
    | [] => Ok []        (* the first parse_with_lexer meets the end of the buffer: EOF *)
    | _ :: _ => parse_loop (S (length data)) st0 [] (Lexer.mkLx 0 data)
    end.
End Loop.

(* ------------------------------------------------------------------ *)
(** * content.rs: inline_image, the typed reading of the dictionary (after the data has been located)

    Every `?` of that part of the function in source order; the image keeps the dictionary as read (the harness puts
    Width / Height / Filter / Intent back under their keys), so the model decides present / absent.  Outside the
    model ([E_UNMODELLED], never generated): colour spaces other than names and Indexed, filters with parameters,
    indirect references. *)
Fixpoint dget (k : bytes) (d : list (bytes * prim)) : option prim :=
  match d with [] => None | (k', v) :: t => if beqb k k' then Some v else dget k t end.

(* content.rs: expand_abbr *)
Fixpoint expand_abbr (p : prim) (alt : list (bytes * bytes)) : prim :=
  match p with
  | PName n => PName (expand_abbr_name n alt)
  | PArr l => PArr (List.map (fun x => expand_abbr x alt) l)
  | _ => p
  end.

(* Option::map(..).transpose()? *)
Definition opt_check {A} (o : option prim) (f : prim -> res A) : res unit :=
  match o with None => Ok tt | Some p => do _ <- f p; Ok tt end.

Definition as_bool (p : prim) : res unit := match p with PBool _ => Ok tt | _ => Err E_UNEXPECTED end.
(* Primitive::as_u32 *)
Definition as_u32 (p : prim) : res unit :=
  match p with PInt z => if (z <? 0)%Z then Err E_OTHER else Ok tt | _ => Err E_UNEXPECTED end.
(* Primitive::as_u8 *)
Definition as_u8 (p : prim) : res unit :=
  match p with PInt z => if ((0 <=? z) && (z <? 256))%Z then Ok tt else Err E_OTHER | _ => Err E_UNEXPECTED end.

(* color.rs: get_index *)
Definition get_index (arr : list prim) (i : nat) : res prim :=
  match nth_error arr i with Some p => Ok p | None => Err E_OTHER end.

Definition name_Indexed : bytes := bs "Indexed".

(* color.rs: ColorSpace::from_primitive_depth (names, Indexed) *)
Fixpoint color_space (depth : nat) (p : prim) : res unit :=
  match p with
  | PName _ => Ok tt
  | PArr arr =>
      do t <- get_index arr 0;
      match t with
      | PName typ =>
          match depth with
          | O => Err E_OTHER                       (* bail!("ColorSpace base recursion") *)
          | S d =>
              if beqb typ name_Indexed then
                do base <- get_index arr 1; do _ <- color_space d base;
                do hv <- get_index arr 2; do _ <- as_u8 hv;
                do lk <- get_index arr 3;
                match lk with PStr _ => Ok tt | _ => Err E_UNEXPECTED end
              else Err E_UNMODELLED
          end
      | _ => Err E_UNEXPECTED
      end
  | _ => Err E_UNEXPECTED                          (* into_array *)
  end.

(* Vec<f32>::from_primitive *)
Definition decode_array (p : prim) : res unit :=
  match p with
  | PArr l => do _ <- map_res as_number l; Ok tt
  | PNull => Ok tt
  | _ => do _ <- as_number p; Ok tt
  end.

Definition filter_names : list bytes :=
  List.map bs ["ASCIIHexDecode"; "ASCII85Decode"; "LZWDecode"; "FlateDecode"; "JPXDecode"; "DCTDecode"; "CCITTFaxDecode";
               "JBIG2Decode"; "Crypt"; "RunLengthDecode"]%string.
Definition filters_with_params : list bytes :=
  List.map bs ["LZWDecode"; "FlateDecode"; "DCTDecode"; "CCITTFaxDecode"; "JBIG2Decode"]%string.

(* enc.rs: StreamFilter::from_kind_and_params; the typed reading of a non-empty parameter dictionary is not modelled *)
Definition filter_of (parms : list (bytes * prim)) (p : prim) : res unit :=
  match p with
  | PName kind =>
      if existsb (beqb kind) filter_names then
        if existsb (beqb kind) filters_with_params then
          match parms with [] => Ok tt | _ => Err E_UNMODELLED end
        else Ok tt
      else Err E_OTHER
  | _ => Err E_UNEXPECTED
  end.

Definition key (s : string) : bytes := bs s.

Definition image_typed (dict : list (bytes * prim)) (data : bytes) : res op :=
  do _ <- opt_check (dget (key "BitsPerComponent") dict) (fun p => as_integer p);
  do _ <- opt_check (dget (key "ColorSpace") dict) (fun p => color_space 5 (expand_abbr p inline_cs_abbr));
  do _ <- opt_check (dget (key "Decode") dict) decode_array;
  do parms <- match dget (key "DecodeParms") dict with
              | None => Ok []
              | Some (PDict d) => Ok d
              | Some _ => Err E_UNEXPECTED
              end;
  do _ <- match dget (key "Filter") dict with
          | None => Ok tt
          | Some f =>
              match expand_abbr f inline_filter_abbr with
              | PArr parts => do _ <- map_res (filter_of parms) parts; Ok tt
              | PName k => filter_of parms (PName k)
              | _ => Err E_OTHER                   (* bail!("invalid filter") *)
              end
          end;
  do _ <- match dget (key "Height") dict with None => Err E_OTHER | Some p => as_u32 p end;
  do _ <- opt_check (dget (key "ImageMask") dict) as_bool;
  do _ <- opt_check (dget (key "Intent") dict)
            (fun p => match p with
                      | PName n => match assoc_b n ri_table with Some _ => Ok tt | None => Err E_OTHER end
                      | _ => Err E_UNEXPECTED
                      end);
  do _ <- opt_check (dget (key "Interpolate") dict) as_bool;
  do _ <- match dget (key "Width") dict with None => Err E_OTHER | Some p => as_u32 p end;
  Ok (OInlineImage dict data).

(* content.rs: parse_ops *)
Definition parse_bytes : bytes -> res (list op) := parse_bytes_with image_typed.

Definition parse_bytes_raw : bytes -> res (list op) :=
  parse_bytes_with (fun dict data => Ok (OInlineImage dict data)).
