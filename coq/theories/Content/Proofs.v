(** Content/Proofs.v — round trip of serialize_ops / OpBuilder::parse (C08), with the serializer's
    look-ahead window explicit, the current-point invariant, and the no-leak property of the operand buffer. *)
From Coq Require Import String.
From PdfV Require Import Base.Prelude Gen.Generated Content.Model.
Open Scope N_scope.

(* ------------------------------------------------------------------ *)
(** * equality tests *)

Lemma beqb_eq a b : beqb a b = true <-> a = b.
Proof.
  revert b. induction a as [|x a IH]; intros [|y b]; cbn [beqb]; try (split; congruence).
  rewrite andb_true_iff, N.eqb_eq, IH. split; [intros [-> ->]; reflexivity|intros H; inversion H; auto].
Qed.

Lemma beqb_refl a : beqb a a = true.
Proof. apply beqb_eq. reflexivity. Qed.

(** numbers the round trip is stated for: every text a finite f32 prints except negative zero *)
Definition fl_okb (f : fl) : bool :=
  match f with FInt _ => true | FReal t => negb (beqb t neg_zero) end.
Definition pt_okb (p : point) : bool := fl_okb (px p) && fl_okb (py p).

Lemma fl_key_ok f : fl_okb f = true -> fl_key f = f.
Proof. destruct f as [z|t]; cbn; [reflexivity|]. intros H. apply negb_true_iff in H. rewrite H. reflexivity. Qed.

Lemma feqb_eq a b : fl_okb a = true -> fl_okb b = true -> feqb a b = true -> a = b.
Proof.
  intros Ha Hb. unfold feqb. rewrite (fl_key_ok a Ha), (fl_key_ok b Hb).
  destruct a, b; cbn; try discriminate.
  - intros H. apply Z.eqb_eq in H. congruence.
  - intros H. apply beqb_eq in H. congruence.
Qed.

Lemma pt_eqb_eq a b : pt_okb a = true -> pt_okb b = true -> pt_eqb a b = true -> a = b.
Proof.
  destruct a as [ax ay], b as [bx b_y]. unfold pt_okb, pt_eqb. cbn [px py].
  rewrite !andb_true_iff. intros [? ?] [? ?] [? ?].
  f_equal; apply feqb_eq; assumption.
Qed.

(* ------------------------------------------------------------------ *)
(** * the domain of the round trip *)

Definition color_okb (c : color) : bool :=
  match c with
  | CGray g => fl_okb g
  | CRgb r g b => fl_okb r && fl_okb g && fl_okb b
  | CCmyk c m y k => fl_okb c && fl_okb m && fl_okb y && fl_okb k
  | COther _ => true
  end.
Definition mat_okb (m : matrix) : bool :=
  fl_okb (ma m) && fl_okb (mb m) && fl_okb (mc m) && fl_okb (md m) && fl_okb (me m) && fl_okb (mf m).
Definition enum_okb (table : list (N * N)) (j : N) : bool :=
  match assocN j table with Some d => d =? j | None => false end.
Definition tda_okb (x : tda) : bool := match x with TdaText _ => true | TdaSpacing f => fl_okb f end.

(** operations the serializer accepts (no inline image), finite operands other than negative zero, enum
    values that exist in the Rust enums *)
Definition op_okb (o : op) : bool :=
  match o with
  | OMoveTo p | OLineTo p | OMoveTextPosition p => pt_okb p
  | OCurveTo a b c => pt_okb a && pt_okb b && pt_okb c
  | ORect x y w h => fl_okb x && fl_okb y && fl_okb w && fl_okb h
  | OTransform m | OSetTextMatrix m => mat_okb m
  | OLineWidth f | OMiterLimit f | OFlatness f | OCharSpacing f | OWordSpacing f | OTextScaling f
  | OLeading f | OTextRise f => fl_okb f
  | OTextFont _ f => fl_okb f
  | ODash pat ph => forallb fl_okb pat && fl_okb ph
  | OLineJoin j => enum_okb line_join_codes j
  | OLineCap c => enum_okb line_cap_codes c
  | OTextRenderMode m => enum_okb text_mode_codes m
  | OStrokeColor c | OFillColor c => color_okb c
  | ORenderingIntent i => match assoc_b i ri_table with Some t => beqb t i | None => false end
  | OTextDrawAdjusted l => forallb tda_okb l
  | OInlineImage _ _ => false
  | _ => true
  end.

(** the one adjacency where reading back is only value-equal: `Leading l; MoveTextPosition (x, y)` written as TD
    reads back the leading as [-y], which for y = 0 is negative zero *)
Definition td_okb (o : op) (rest : list op) : bool :=
  match o, rest with
  | OLeading _, OMoveTextPosition t :: _ => fl_okb (fl_neg (py t))
  | _, _ => true
  end.

Fixpoint seq_okb (ops : list op) : bool :=
  match ops with
  | [] => true
  | o :: r => op_okb o && td_okb o r && seq_okb r
  end.

(** [accepted]: what `C08_roundtrip` quantifies over *)
Definition accepted (ops : list op) : Prop := seq_okb ops = true.

(* ------------------------------------------------------------------ *)
(** * the token-level writer (what the written lines lex to) *)

Definition line_toks (args : list prim) (k : kwd) : list tok := List.map TObj args ++ [TWord (kw_name k)].

Fixpoint toks_go (fuel : nat) (cur : option point) (ops : list op) : res (list tok) :=
  match ops with
  | [] => Ok []
  | o :: rest =>
      match fuel with
      | O => OutOfFuel
      | S f =>
          do (args, k, cur2, n) <- ser_head cur o rest;
          do r <- toks_go f cur2 (skipn n rest);
          Ok (line_toks args k ++ r)
      end
  end.
Definition ser_toks (ops : list op) : res (list tok) := toks_go (length ops) None ops.

(** the text of a token list as content.rs lays it out: operand, space; keyword, newline *)
Fixpoint render_toks (ts : list tok) : res bytes :=
  match ts with
  | [] => Ok []
  | TObj p :: r => do a <- ser_prim p; do b <- render_toks r; Ok (a ++ 32 :: b)
  | TWord w :: r => do b <- render_toks r; Ok (w ++ 10 :: b)
  | TRaw d :: r => Err E_UNMODELLED
  end.

(* ------------------------------------------------------------------ *)
(** * operand helpers read back what the writer's operand lists contain *)

Lemma number_pnum f a : number (pnum f :: a) = Ok (f, a).
Proof. destruct f; reflexivity. Qed.

Lemma point_num2 x y a : point_ (pnum x :: pnum y :: a) = Ok (mkpt x y, a).
Proof. unfold point_. rewrite number_pnum. cbn [bind]. rewrite number_pnum. reflexivity. Qed.

Lemma map_res_pnum l : map_res as_number (List.map pnum l) = Ok l.
Proof.
  induction l as [|f l IH]; [reflexivity|]. cbn [List.map map_res].
  replace (as_number (pnum f)) with (@Ok fl f) by (destruct f; reflexivity).
  cbn [bind]. rewrite IH. reflexivity.
Qed.

Lemma map_res_tda l : map_res tda_of (List.map tda_prim l) = Ok l.
Proof.
  induction l as [|x l IH]; [reflexivity|]. cbn [List.map map_res].
  replace (tda_of (tda_prim x)) with (@Ok tda x) by (destruct x as [s|[z|t]]; reflexivity).
  cbn [bind]. rewrite IH. reflexivity.
Qed.

Lemma enum_ok table j a : enum_okb table j = true -> enum_ table (PInt (Z.of_N j) :: a) = Ok j.
Proof.
  unfold enum_okb, enum_. cbn [next bind as_integer].
  destruct (Z.ltb_spec (Z.of_N j) 0) as [Hlt|_]; [lia|].
  rewrite N2Z.id. destruct (assocN j table) as [d|]; [|discriminate].
  intros H. apply N.eqb_eq in H. subst. reflexivity.
Qed.

Lemma lookup_kw_name k : lookup_kw (kw_name k) = Some k.
Proof. destruct k; vm_compute; reflexivity. Qed.

Lemma kw_name_not_BI k : k <> KBI -> beqb (kw_name k) (kw_name KBI) = false.
Proof. destruct k; intros H; try (vm_compute; reflexivity). contradiction. Qed.

(* ------------------------------------------------------------------ *)
(** * one writer step is inverted by one reader step (look-ahead window explicit) *)

(** the serializer's current_point and the builder's `last` agree whenever the serializer has one *)
Definition sync (cur : option point) (last : point) : Prop :=
  forall q, cur = Some q -> q = last /\ pt_okb q = true.

Ltac okb :=
  repeat match goal with
         | H : (_ && _) = true |- _ => apply andb_true_iff in H; destruct H
         end.

Lemma head_rt cur last o rest args k cur2 n :
  op_okb o = true -> td_okb o rest = true -> sync cur last ->
  ser_head cur o rest = Ok (args, k, cur2, n) ->
  exists last2, add k args (last, false) = (o :: firstn n rest, Ok (last2, false)) /\ sync cur2 last2 /\ k <> KBI.
Proof.
  intros Hok Htd Hs H.
  destruct o; cbn [op_okb] in Hok; try discriminate Hok; cbn [ser_head] in H.
  all: try (match type of H with context [match ?p with Some _ => _ | None => _ end] =>
              match type of p with option prim => destruct p end end).
  all: try (match type of H with context [match ?w with EvenOdd => _ | NonZero => _ end] => destruct w end).
  all: try (match type of H with context [match ?c with CGray _ => _ | _ => _ end] => destruct c; cbn [color_okb] in Hok end).
  all: try (inversion H; subst; clear H; okb; exists last;
            split; [cbn [add push1 pushes rmap name_ next bind string_ array_]; unfold num2, num6; cbn [px py];
                    rewrite ?number_pnum; cbn [bind]; rewrite ?number_pnum; cbn [bind];
                    rewrite ?number_pnum; cbn [bind]; rewrite ?number_pnum; cbn [bind];
                    rewrite ?map_res_pnum, ?map_res_tda; cbn [bind rmap]; reflexivity
                   |split; [first [exact Hs|intros q Hq; discriminate Hq]|discriminate]]).
  - (* Close *)
    destruct rest as [|[] rest']; inversion H; subst; clear H;
      try (exists last; split; [reflexivity|split; [intros q Hq; discriminate Hq|discriminate]]).
    destruct w; inversion H1; subst; exists last; (split; [reflexivity|split; [intros q Hq; discriminate Hq|discriminate]]).
  - (* MoveTo *)
    destruct p as [x y]. inversion H; subst; clear H. exists (mkpt x y). split.
    + cbn [add]; unfold num2; cbn [px py app]. rewrite point_num2. reflexivity.
    + split; [|discriminate]. intros q Hq. inversion Hq; subst. split; [reflexivity|exact Hok].
  - (* LineTo *)
    destruct p as [x y]. inversion H; subst; clear H. exists (mkpt x y). split.
    + cbn [add]; unfold num2; cbn [px py app]. rewrite point_num2. reflexivity.
    + split; [|discriminate]. intros q Hq. inversion Hq; subst. split; [reflexivity|exact Hok].
  - (* CurveTo *)
    okb. destruct c1 as [x1 y1], c2 as [x2 y2], p as [x3 y3].
    destruct (match cur with Some q => pt_eqb (mkpt x1 y1) q | None => false end) eqn:Hv.
    + destruct cur as [q|]; [|discriminate]. destruct (Hs q eq_refl) as [Hq Hqok]. subst q.
      apply pt_eqb_eq in Hv; [|assumption|assumption]. subst last.
      inversion H; subst; clear H. exists (mkpt x3 y3). split.
      * cbn [add]; unfold num2; cbn [px py app]. rewrite point_num2. cbn [bind]. rewrite point_num2. reflexivity.
      * split; [|discriminate]. intros q Hq. inversion Hq; subst. split; [reflexivity|assumption].
    + destruct (pt_eqb (mkpt x2 y2) (mkpt x3 y3)) eqn:Hy.
      * apply pt_eqb_eq in Hy; [|assumption|assumption]. inversion Hy; subst.
        inversion H; subst; clear H. exists (mkpt x3 y3). split.
        -- cbn [add]; unfold num2; cbn [px py app]. rewrite point_num2. cbn [bind]. rewrite point_num2. reflexivity.
        -- split; [|discriminate]. intros q Hq. inversion Hq; subst. split; [reflexivity|assumption].
      * inversion H; subst; clear H. exists (mkpt x3 y3). split.
        -- cbn [add]; unfold num2; cbn [px py app]. rewrite point_num2. cbn [bind]. rewrite point_num2. cbn [bind].
           rewrite point_num2. reflexivity.
        -- split; [|discriminate]. intros q Hq. inversion Hq; subst. split; [reflexivity|assumption].
  - (* Transform *)
    destruct m as [a1 a2 a3 a4 a5 a6]. inversion H; subst; clear H. exists last. split; [|split; [exact Hs|discriminate]].
    cbn [add push1 pushes rmap]; unfold num6, matrix_; cbn [ma mb mc md me mf]. rewrite !number_pnum. cbn [bind].
    rewrite !number_pnum. cbn [bind]. rewrite !number_pnum. cbn [bind]. rewrite !number_pnum. cbn [bind].
    rewrite !number_pnum. cbn [bind]. rewrite !number_pnum. reflexivity.
  - (* LineJoin *)
    inversion H; subst; clear H. exists last. split; [|split; [exact Hs|discriminate]].
    cbn [add push1 pushes]. rewrite (enum_ok _ _ _ Hok). reflexivity.
  - (* LineCap *)
    inversion H; subst; clear H. exists last. split; [|split; [exact Hs|discriminate]].
    cbn [add push1 pushes]. rewrite (enum_ok _ _ _ Hok). reflexivity.
  - (* RenderingIntent *)
    inversion H; subst; clear H. exists last. split; [|split; [exact Hs|discriminate]].
    cbn [add push1 pushes name_ next bind]. destruct (assoc_b i ri_table) as [t|]; [|discriminate].
    apply beqb_eq in Hok. subst. reflexivity.
  - (* WordSpacing *)
    destruct rest as [|[] rest1]; try (inversion H; subst; clear H; exists last;
      split; [cbn [add push1 pushes]; rewrite number_pnum; reflexivity|split; [exact Hs|discriminate]]).
    destruct rest1 as [|[] rest2]; try (inversion H; subst; clear H; exists last;
      split; [cbn [add push1 pushes]; rewrite number_pnum; reflexivity|split; [exact Hs|discriminate]]).
    destruct rest2 as [|[] rest3]; try (inversion H; subst; clear H; exists last;
      split; [cbn [add push1 pushes]; rewrite number_pnum; reflexivity|split; [exact Hs|discriminate]]).
    inversion H; subst; clear H. exists last. split; [|split; [exact Hs|discriminate]].
    cbn [add]. rewrite number_pnum. rewrite number_pnum. reflexivity.
  - (* Leading *)
    destruct rest as [|[] rest1]; try (inversion H; subst; clear H; exists last;
      split; [cbn [add push1 pushes]; rewrite number_pnum; reflexivity|split; [exact Hs|discriminate]]).
    cbn [td_okb] in Htd. destruct t as [tx ty]. cbn [py] in *.
    destruct (feqb f (fl_neg ty)) eqn:He.
    + apply feqb_eq in He; [|assumption|assumption]. subst f.
      inversion H; subst; clear H. exists last. split; [|split; [exact Hs|discriminate]].
      cbn [add pushes]; unfold num2; cbn [px py app]. rewrite point_num2. reflexivity.
    + inversion H; subst; clear H. exists last.
      split; [cbn [add push1 pushes]; rewrite number_pnum; reflexivity|split; [exact Hs|discriminate]].
  - (* TextRenderMode *)
    inversion H; subst; clear H. exists last. split; [|split; [exact Hs|discriminate]].
    cbn [add push1 pushes]. rewrite (enum_ok _ _ _ Hok). reflexivity.
  - (* MoveTextPosition *)
    destruct t as [x y]. inversion H; subst; clear H. exists last. split; [|split; [exact Hs|discriminate]].
    cbn [add push1 pushes]; unfold num2; cbn [px py app]. rewrite point_num2. reflexivity.
  - (* SetTextMatrix *)
    destruct m as [a1 a2 a3 a4 a5 a6]. inversion H; subst; clear H. exists last. split; [|split; [exact Hs|discriminate]].
    cbn [add push1 pushes rmap]; unfold num6, matrix_; cbn [ma mb mc md me mf]. rewrite !number_pnum. cbn [bind].
    rewrite !number_pnum. cbn [bind]. rewrite !number_pnum. cbn [bind]. rewrite !number_pnum. cbn [bind].
    rewrite !number_pnum. cbn [bind]. rewrite !number_pnum. reflexivity.
  - (* TextNewline *)
    destruct rest as [|[] rest1]; inversion H; subst; clear H; exists last;
      (split; [reflexivity|split; [exact Hs|discriminate]]).
Qed.

(* ------------------------------------------------------------------ *)
(** * the loop *)

Lemma ser_head_ok cur o rest : op_okb o = true -> exists r, ser_head cur o rest = Ok r.
Proof.
  intros H. destruct o; try discriminate H; cbn [ser_head];
    repeat match goal with |- context [match ?x with _ => _ end] => destruct x end;
    eexists; reflexivity.
Qed.

Lemma parse_operands st buf args ts :
  parse_toks st buf None (List.map TObj args ++ ts) = parse_toks st (buf ++ args) None ts.
Proof.
  revert buf. induction args as [|a args IH]; intros buf; cbn [List.map app].
  - rewrite app_nil_r. reflexivity.
  - cbn [parse_toks]. rewrite IH. rewrite <- app_assoc. reflexivity.
Qed.

Lemma seq_okb_skipn n ops : seq_okb ops = true -> seq_okb (skipn n ops) = true.
Proof.
  revert ops. induction n as [|n IH]; intros [|o r] H; cbn [skipn]; try assumption.
  apply IH. cbn [seq_okb] in H. okb. assumption.
Qed.

Lemma roundtrip_go fuel : forall cur last ops, (length ops <= fuel)%nat -> seq_okb ops = true -> sync cur last ->
  exists ts, toks_go fuel cur ops = Ok ts /\ parse_toks (last, false) [] None ts = Ok ops.
Proof.
  induction fuel as [|fuel IH]; intros cur last ops Hlen Hok Hs.
  - destruct ops; [|cbn in Hlen; lia]. exists []. split; reflexivity.
  - destruct ops as [|o rest]; [exists []; split; reflexivity|].
    cbn [seq_okb] in Hok. okb.
    destruct (ser_head_ok cur o rest) as [[[[args k] cur2] n] Hh]; [assumption|].
    destruct (head_rt cur last o rest args k cur2 n) as [last2 [Hadd [Hs2 HBI]]]; try assumption.
    destruct (IH cur2 last2 (skipn n rest)) as [ts' [Ht Hp]].
    + rewrite skipn_length. cbn [length] in Hlen. lia.
    + apply seq_okb_skipn. assumption.
    + assumption.
    + exists (line_toks args k ++ ts'). split.
      * cbn [toks_go]. rewrite Hh. cbn [bind]. rewrite Ht. reflexivity.
      * unfold line_toks. rewrite <- app_assoc. rewrite parse_operands. cbn [app parse_toks].
        rewrite (kw_name_not_BI k HBI). unfold add_word. rewrite lookup_kw_name. rewrite Hadd.
        rewrite Hp. cbn [bind app]. rewrite firstn_skipn. reflexivity.
Qed.

(** the round trip on the lexed stream: unconditional *)
Theorem roundtrip_tokens ops : accepted ops ->
  exists ts, ser_toks ops = Ok ts /\ parse_ops_toks ts = Ok ops.
Proof.
  intros H. apply roundtrip_go; [lia|exact H|]. intros q Hq. discriminate Hq.
Qed.

(** the invariant behind the v shorthand: it holds initially and every writer step followed by the reader's
    reading of that line re-establishes it *)
Theorem cur_point_sync :
  sync None (fst st0) /\
  forall cur last o rest args k cur2 n,
    op_okb o = true -> td_okb o rest = true -> sync cur last ->
    ser_head cur o rest = Ok (args, k, cur2, n) ->
    exists last2, add k args (last, false) = (o :: firstn n rest, Ok (last2, false)) /\ sync cur2 last2.
Proof.
  split; [intros q Hq; discriminate Hq|].
  intros cur last o rest args k cur2 n H1 H2 H3 H4.
  destruct (head_rt cur last o rest args k cur2 n H1 H2 H3 H4) as [l [Ha [Hs _]]]. exists l. split; assumption.
Qed.

(* ------------------------------------------------------------------ *)
(** * the bytes serialize_ops writes are the rendering of those tokens *)

Lemma render_toks_app a b :
  render_toks (a ++ b) = do x <- render_toks a; do y <- render_toks b; Ok (x ++ y).
Proof.
  induction a as [|[p|w|d] a IH]; cbn [app render_toks].
  - cbn [bind]. destruct (render_toks b); reflexivity.
  - destruct (ser_prim p); cbn [bind]; try reflexivity. rewrite IH.
    destruct (render_toks a); cbn [bind]; try reflexivity.
    destruct (render_toks b); cbn [bind]; try reflexivity.
    rewrite <- app_assoc. reflexivity.
  - rewrite IH. destruct (render_toks a); cbn [bind]; try reflexivity.
    destruct (render_toks b); cbn [bind]; try reflexivity.
    rewrite <- app_assoc. reflexivity.
  - reflexivity.
Qed.

Lemma render_line_toks args k : render_line args k = render_toks (line_toks args k).
Proof.
  unfold render_line, line_toks. induction args as [|a args IH]; cbn [List.map app render_args render_toks bind].
  - reflexivity.
  - destruct (ser_prim a); cbn [bind]; try reflexivity. rewrite <- IH.
    destruct (render_args args); cbn [bind]; try reflexivity. rewrite <- app_assoc. reflexivity.
Qed.

Lemma ser_factor fuel : forall cur ops ts, toks_go fuel cur ops = Ok ts -> ser_go fuel cur ops = render_toks ts.
Proof.
  induction fuel as [|fuel IH]; intros cur [|o rest] ts H; cbn [toks_go ser_go] in *;
    try (inversion H; reflexivity); try discriminate.
  destruct (ser_head cur o rest) as [[[[args k] c2] n]| | |]; cbn [bind] in *; try discriminate.
  destruct (toks_go fuel c2 (skipn n rest)) as [ts'| | |] eqn:E; cbn [bind] in H; try discriminate.
  inversion H; subst. rewrite render_toks_app, <- render_line_toks, (IH _ _ _ E). reflexivity.
Qed.

(** content.rs: parse_ops with the operand reader (pdf/src/parser) as a function [lex] *)
Definition parse_ops (lex : bytes -> res (list tok)) (data : bytes) : res (list op) :=
  do ts <- lex data; parse_ops_toks ts.

(** premise of the byte-level round trip: the parser reads the lines this sequence is written as back
    into the operands and keywords they were written from (the statement of C04 for these operands) *)
Definition lex_reads_back (lex : bytes -> res (list tok)) (ops : list op) : Prop :=
  forall ts b, ser_toks ops = Ok ts -> render_toks ts = Ok b -> lex b = Ok ts.

Theorem roundtrip_bytes lex ops : accepted ops -> lex_reads_back lex ops ->
  forall b, ser_ops ops = Ok b -> parse_ops lex b = Ok ops.
Proof.
  intros Hacc Hlex b Hb. destruct (roundtrip_tokens ops Hacc) as [ts [Hts Hp]].
  unfold ser_ops in Hb. unfold ser_toks in Hts. rewrite (ser_factor _ _ _ _ Hts) in Hb.
  unfold parse_ops. rewrite (Hlex ts b Hts Hb). cbn [bind]. exact Hp.
Qed.

(** the writer never fails on an accepted sequence whose operands can be written (no name above '~') *)
Theorem ser_ops_defined ops : accepted ops -> exists ts, ser_toks ops = Ok ts /\ ser_ops ops = render_toks ts.
Proof.
  intros Hacc. destruct (roundtrip_tokens ops Hacc) as [ts [Hts _]]. exists ts. split; [exact Hts|].
  apply ser_factor. exact Hts.
Qed.

(* ------------------------------------------------------------------ *)
(** * operands never leak from one operator to the next *)

Lemma allow_true : allow_invalid_ops = true.
Proof. reflexivity. Qed.

(** whatever an operator does with its operands (uses them, ignores some, fails), the reader continues
    with an empty buffer *)
Theorem no_leak st buf w r : beqb w (kw_name KBI) = false ->
  parse_toks st buf None (TWord w :: r) =
  match add_word w buf st with
  | (pushed, Ok st') => do rest <- parse_toks st' [] None r; Ok (pushed ++ rest)
  | (pushed, Err _) => do rest <- parse_toks st [] None r; Ok (pushed ++ rest)
  | (_, Panic s) => Panic s
  | (_, OutOfFuel) => OutOfFuel
  end.
Proof.
  intros H. cbn [parse_toks]. rewrite H.
  destruct (add_word w buf st) as [pushed [st'|e|s|]]; rewrite ?allow_true; reflexivity.
Qed.

(** hence the next operator sees exactly the operands written after the previous operator *)
Theorem no_leak_buffer st buf w args r : beqb w (kw_name KBI) = false ->
  parse_toks st buf None (TWord w :: List.map TObj args ++ r) =
  match add_word w buf st with
  | (pushed, Ok st') => do rest <- parse_toks st' args None r; Ok (pushed ++ rest)
  | (pushed, Err _) => do rest <- parse_toks st args None r; Ok (pushed ++ rest)
  | (_, Panic s) => Panic s
  | (_, OutOfFuel) => OutOfFuel
  end.
Proof.
  intros H. rewrite (no_leak st buf w _ H).
  destruct (add_word w buf st) as [pushed [st'|e|s|]]; rewrite ?parse_operands; reflexivity.
Qed.

(** non-vacuity: a sequence that uses every shorthand *)
Definition P12 : point := mkpt (FInt 1) (FInt 2).
Definition P34 : point := mkpt (FReal (bs "3.5")) (FInt 4).
Definition demo_ops : list op :=
  [OMoveTo P12; OCurveTo P12 P34 P34; OCurveTo P12 P34 P34; OClose; OStroke; OClose; OFillAndStroke EvenOdd;
   OBeginText; OLeading (FInt (-4)); OMoveTextPosition P34; OWordSpacing (FInt 1); OCharSpacing (FInt 2);
   OTextNewline; OTextDraw (bs "a(b"); OTextNewline; OTextDraw [200]; ORenderingIntent (bs "Perceptual");
   OShade (bs "Sh0"); OTextRenderMode 5; OEndText].

Example demo_accepted : accepted demo_ops.
Proof. vm_compute. reflexivity. Qed.

Example demo_bytes : ser_ops demo_ops =
  Ok (bs "1 2 m" ++ [10] ++ bs "3.5 4 3.5 4 v" ++ [10] ++ bs "1 2 3.5 4 y" ++ [10] ++ bs "s" ++ [10] ++ bs "b*" ++ [10] ++
      bs "BT" ++ [10] ++ bs "3.5 4 TD" ++ [10] ++ bs "1 2 (a\(b) " ++ [34; 10] ++ bs "<c8> '" ++ [10] ++
      bs "/Perceptual ri" ++ [10] ++ bs "/Sh0 sh" ++ [10] ++ bs "5 Tr" ++ [10] ++ bs "ET" ++ [10]).
Proof. vm_compute. reflexivity. Qed.

(* ------------------------------------------------------------------ *)
(** * the writer's current point is the standard's whenever it has one (C08-i)

    ISO 32000-1 8.5.2.1 / Table 59: m sets the current point and begins a subpath; l, c, v, y move it; h moves it
    to the start of the subpath; re leaves it at the rectangle's corner (x y m … h); the path-painting operators
    and n end the path: no current point. *)
Definition iso_cp_step (st : option point * option point) (o : op) : option point * option point :=
  let '(cp, start) := st in
  match o with
  | OMoveTo p => (Some p, Some p)
  | OLineTo p => (Some p, start)
  | OCurveTo _ _ p => (Some p, start)
  | OClose => (start, start)
  | ORect x y _ _ => (Some (mkpt x y), Some (mkpt x y))
  | OEndPath | OStroke | OFill _ | OFillAndStroke _ => (None, None)
  | _ => (cp, start)
  end.

(** [below cur cp]: what the writer believes is not more than the standard says *)
Definition below (cur cp : option point) : Prop := forall q, cur = Some q -> cp = Some q.

(** one iteration of serialize_ops (which consumes [o] and [n] operations after it) keeps the writer's
    current_point below the standard's *)
Lemma writer_cp_step cur (st : option point * option point) o rest args k cur2 n :
  below cur (fst st) -> ser_head cur o rest = Ok (args, k, cur2, n) ->
  below cur2 (fst (fold_left iso_cp_step (o :: firstn n rest) st)).
Proof.
  intros Hb H. destruct st as [cp start].
  destruct o; cbn [ser_head] in H.
  all: try (match type of H with context [match ?p with Some _ => _ | None => _ end] =>
              match type of p with option prim => destruct p end end).
  all: try (match type of H with context [match ?w with EvenOdd => _ | NonZero => _ end] => destruct w end).
  all: try (match type of H with context [match ?c with CGray _ => _ | _ => _ end] => destruct c end).
  all: try (inversion H; subst; clear H; cbn [firstn fold_left iso_cp_step fst]; first [exact Hb|intros q Hq; discriminate Hq]).
  - (* Close *)
    destruct rest as [|[] rest']; inversion H; subst; clear H; try (intros q Hq; discriminate Hq).
    destruct w; inversion H1; subst; intros q Hq; discriminate Hq.
  - (* MoveTo *) inversion H; subst. intros q Hq. exact Hq.
  - (* LineTo *) inversion H; subst. intros q Hq. exact Hq.
  - (* CurveTo *)
    destruct (match cur with Some q => pt_eqb c1 q | None => false end);
      [|destruct (pt_eqb c2 p)]; inversion H; subst; intros q Hq; exact Hq.
  - (* WordSpacing *)
    destruct rest as [|[] rest1]; try (inversion H; subst; exact Hb).
    destruct rest1 as [|[] rest2]; try (inversion H; subst; exact Hb).
    destruct rest2 as [|[] rest3]; try (inversion H; subst; exact Hb).
  - (* Leading *)
    destruct rest as [|[] rest1]; try (inversion H; subst; exact Hb).
    destruct (feqb f (fl_neg (py t))); inversion H; subst; exact Hb.
  - (* TextNewline *)
    destruct rest as [|[] rest1]; inversion H; subst; exact Hb.
Qed.

(** … and `v` is written only when the first control point equals that current point *)
Lemma writer_v_guard cur c1 c2 p rest args cur2 n :
  ser_head cur (OCurveTo c1 c2 p) rest = Ok (args, Kv, cur2, n) ->
  exists q, cur = Some q /\ pt_eqb c1 q = true /\ args = num2 c2 ++ num2 p.
Proof.
  cbn [ser_head]. destruct cur as [q|]; cbn beta iota.
  - destruct (pt_eqb c1 q) eqn:E; [|destruct (pt_eqb c2 p)]; intros H; inversion H; subst.
    exists q. repeat split. exact E.
  - destruct (pt_eqb c2 p); intros H; inversion H.
Qed.

Theorem writer_cp_iso :
  below None None /\
  (forall cur (st : option point * option point) o rest args k cur2 n,
     below cur (fst st) -> ser_head cur o rest = Ok (args, k, cur2, n) ->
     below cur2 (fst (fold_left iso_cp_step (o :: firstn n rest) st))) /\
  (forall cur (st : option point * option point) c1 c2 p rest args cur2 n,
     below cur (fst st) -> ser_head cur (OCurveTo c1 c2 p) rest = Ok (args, Kv, cur2, n) ->
     exists q, fst st = Some q /\ pt_eqb c1 q = true /\ args = num2 c2 ++ num2 p).
Proof.
  split; [intros q Hq; discriminate Hq|]. split; [exact writer_cp_step|].
  intros cur st c1 c2 p rest args cur2 n Hb H.
  destruct (writer_v_guard _ _ _ _ _ _ _ _ H) as (q & Hc & He & Ha).
  exists q. split; [apply Hb; exact Hc|split; assumption].
Qed.
