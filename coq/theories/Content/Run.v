(** Content/Run.v — harness entry points of the content-stream model (one per mode). *)
From PdfV Require Import Base.Prelude Gen.Generated Content.Model Content.Canon Content.Bytes.

(* fields: the operation list in canonical atoms -> the bytes serialize_ops writes *)
Definition run_ops_serialize (fs : list bytes) : res (list bytes) :=
  do ops <- dec_ops fs; do b <- ser_ops ops; Ok [b].

(* fields: the lexed stream in canonical atoms (the implementation gets the spelled bytes)
   -> the operation list parse_ops returns *)
Definition run_ops_parse (fs : list bytes) : res (list bytes) :=
  do ts <- dec_toks fs; do ops <- parse_ops_toks ts; Ok (enc_ops ops).

(* serialize, then parse what the writer's lines lex to: the round trip at token level *)
Definition toks_of_line (args : list prim) (k : kwd) : list tok := List.map TObj args ++ [TWord (kw_name k)].

(* fields: the content stream's bytes (the same field the implementation gets) -> the operation list parse_ops
   returns; the token loop runs on the shared lexer / parser models (Content/Bytes.v) *)
Definition run_ops_parse_bytes (fs : list bytes) : res (list bytes) :=
  match fs with
  | [data] => do ops <- parse_bytes data; Ok (enc_ops ops)
  | [] => do ops <- parse_bytes []; Ok (enc_ops ops)
  | _ => Err E_CANON
  end.

(* serialize_ops, then parse_ops on the bytes written (the implementation's ops_roundtrip) *)
Definition run_ops_roundtrip (fs : list bytes) : res (list bytes) :=
  do ops <- dec_ops fs; do b <- ser_ops ops; do ops' <- parse_bytes b; Ok (enc_ops ops').
