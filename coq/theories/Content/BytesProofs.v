(** Content/BytesProofs.v — the premise [lex_reads_back] of the byte-level round trip, discharged:
    what serialize_ops writes is read back by OpBuilder::parse's token loop over the shared lexer / parser models
    (Content/Bytes.v) into the tokens it was written from.  Uses Syn/SerProofs.v ([ser_spells]: the serializer writes
    conforming spellings), Syn/RenderProofs.v ([parse_rendered]: the parser on bytes), Syn/ParserProofs.v (what may
    follow a value), Lex/LexProofs.v ([next_word_regular]: an operator keyword is one regular token). *)
From Coq Require Import String.
From PdfV Require Import Base.Prelude Gen.Generated Content.Model Content.Proofs Content.Bytes.
From PdfV Require Lex.Lexer Lex.StrLexer Lex.LexProofs Lex.NumProofs Syn.Prim Syn.Utf8 Syn.Parser Syn.Serialize
  Syn.Spells Syn.ParserProofs Syn.RenderProofs Syn.SerProofs.
Open Scope N_scope.

(* ------------------------------------------------------------------ *)
(** * nested induction over the content model's operands *)
Section CPrimInd.
  Variable P : prim -> Prop.
  Hypothesis Hnull : P PNull.
  Hypothesis Hbool : forall b, P (PBool b).
  Hypothesis Hint : forall z, P (PInt z).
  Hypothesis Hreal : forall f, P (PReal f).
  Hypothesis Hname : forall n, P (PName n).
  Hypothesis Hstr : forall s, P (PStr s).
  Hypothesis Harr : forall l, Forall P l -> P (PArr l).
  Hypothesis Hdict : forall d, Forall (fun kv => P (snd kv)) d -> P (PDict d).

  Fixpoint cprim_ind (v : prim) : P v :=
    let fix go_l (l : list prim) : Forall P l :=
        match l with [] => Forall_nil _ | x :: t => Forall_cons _ (cprim_ind x) (go_l t) end in
    let fix go_d (d : list (bytes * prim)) : Forall (fun kv => P (snd kv)) d :=
        match d with [] => Forall_nil _ | (k, x) :: t => Forall_cons (k, x) (cprim_ind x) (go_d t) end in
    match v with
    | PNull => Hnull
    | PBool b => Hbool b
    | PInt z => Hint z
    | PReal f => Hreal f
    | PName n => Hname n
    | PStr s => Hstr s
    | PArr l => Harr l (go_l l)
    | PDict d => Hdict d (go_d d)
    end.
End CPrimInd.

(* ------------------------------------------------------------------ *)
(** * the operands the round trip on bytes is stated for (decidable) *)

(** the text Rust prints for a finite non-integral f32: `-`? digits `.` digits *)
Definition real_textb (t : bytes) : bool :=
  let body := match t with c :: r => if c =? 45 then r else t | [] => [] end in
  match Lexer.split_dot body with
  | Some (ip, fp) =>
      Lexer.all_digits ip && Lexer.all_digits fp &&
      match ip with [] => false | _ => true end && match fp with [] => false | _ => true end
  | None => false
  end.

Definition byte_okb (b : N) : bool := b <? 256.
Definition i32b (z : Z) : bool := ((-2147483648 <=? z) && (z <=? 2147483647))%Z.

Fixpoint keys_nodupb (l : list bytes) : bool :=
  match l with [] => true | k :: t => negb (existsb (beqb k) t) && keys_nodupb t end.

Definition name_okb (n : bytes) : bool := forallb byte_okb n && Utf8.is_utf8 n.

(** an operand that is read back as itself: an integer within i32, a real written with a decimal point (a
    `Primitive::Number` holding an integral value is written without one and read back as an Integer: value-equal
    only), names of valid UTF-8, byte strings, dictionaries without a repeated key *)
Fixpoint prim_wfb (p : prim) : bool :=
  match p with
  | PNull => true
  | PBool _ => true
  | PInt z => i32b z
  | PReal (FReal t) => real_textb t
  | PReal (FInt _) => false
  | PName n => name_okb n
  | PStr s => forallb byte_okb s
  | PArr l => forallb prim_wfb l
  | PDict d =>
      keys_nodupb (List.map fst d) &&
      (fix go (d : list (bytes * prim)) : bool :=
         match d with [] => true | (k, v) :: t => name_okb k && prim_wfb v && go t end) d
  end.

Definition dict_wfb : list (bytes * prim) -> bool :=
  fix go (d : list (bytes * prim)) : bool :=
    match d with [] => true | (k, v) :: t => name_okb k && prim_wfb v && go t end.

Definition depth_okb (p : prim) : bool := Spells.vdepth (to_syn p) <=? MAX_DEPTH.

(** a written token stream: operands as above, operator keywords of OpBuilder::add other than BI; every operand is
    followed by something (the stream ends with an operator) *)
Definition kw_okb (w : bytes) : bool :=
  match lookup_kw w with Some k => negb (beqb w kw_BI) | None => false end.

Fixpoint toks_okb (ts : list tok) : bool :=
  match ts with
  | [] => true
  | TObj p :: r => prim_wfb p && depth_okb p && match r with [] => false | _ => true end && toks_okb r
  | TWord w :: r => kw_okb w && toks_okb r
  | TRaw _ :: _ => false
  end.

(** [writable ops]: every operand serialize_ops writes for [ops] is of that kind.  Decidable: it is a computation
    on the token-level writer. *)
Definition writableb (ops : list op) : bool :=
  match ser_toks ops with Ok ts => toks_okb ts | _ => false end.
Definition writable (ops : list op) : Prop := writableb ops = true.

(* ------------------------------------------------------------------ *)
(** * numbers *)

Lemma split_dot_eq l : forall a c, Lexer.split_dot l = Some (a, c) -> l = a ++ Lexer.DOT :: c.
Proof.
  induction l as [|b t IH]; intros a c H; cbn [Lexer.split_dot] in H; [discriminate|].
  destruct (N.eqb_spec b Lexer.DOT) as [->|Hne].
  - inversion H; subst. reflexivity.
  - destruct (Lexer.split_dot t) as [[a' c']|]; [|discriminate]. inversion H; subst.
    rewrite (IH a' c eq_refl). reflexivity.
Qed.

Lemma digits_regular l : Lexer.all_digits l = true -> Forall (fun b => Lexer.is_reg b = true) l.
Proof.
  unfold Lexer.all_digits. rewrite forallb_forall. intros H. apply Forall_forall. intros d Hd.
  apply SerProofs.digit_regular. apply H. exact Hd.
Qed.

Lemma digit_not_plus_dot d : Lexer.is_digit d = true -> (d =? 43) = false /\ (d =? 46) = false /\ (d =? 45) = false.
Proof.
  unfold Lexer.is_digit. rewrite andb_true_iff, !N.leb_le. intros [H1 H2].
  repeat split; apply N.eqb_neq; lia.
Qed.

Lemma real_text_facts t : real_textb t = true ->
  Spells.real_word t /\ t <> [] /\ Forall (fun b => Lexer.is_reg b = true) t /\ fl_of_text t = FReal t.
Proof.
  unfold real_textb. intros H.
  set (body := match t with c :: r => if c =? 45 then r else t | [] => [] end) in *.
  destruct (Lexer.split_dot body) as [[ip fp]|] eqn:E; [|discriminate].
  apply split_dot_eq in E.
  destruct ip as [|d ip']; [rewrite !andb_false_r in H; cbn in H; discriminate|].
  destruct fp as [|e fp']; [rewrite !andb_false_r in H; discriminate|].
  rewrite !andb_true_r in H. apply andb_true_iff in H. destruct H as [Hi Hf].
  assert (Hd : Lexer.is_digit d = true)
    by (cbn [Lexer.all_digits forallb] in Hi; apply andb_true_iff in Hi; tauto).
  destruct (digit_not_plus_dot d Hd) as (Hp & Hdot & Hm).
  assert (Hsg : exists sg, (sg = [] \/ sg = [Lexer.MINUS]) /\ t = sg ++ (d :: ip') ++ Lexer.DOT :: e :: fp').
  { destruct t as [|c r]; [subst body; destruct (d :: ip'); discriminate|].
    subst body. destruct (N.eqb_spec c 45) as [->|Hc].
    - exists [Lexer.MINUS]. split; [right; reflexivity|]. rewrite E. reflexivity.
    - exists []. split; [left; reflexivity|]. rewrite E. reflexivity. }
  destruct Hsg as (sg & Hsg & Et).
  assert (Hreg : Forall (fun b => Lexer.is_reg b = true) t).
  { rewrite Et. apply Forall_app. split.
    - destruct Hsg as [->| ->]; repeat constructor.
    - apply Forall_app. split; [apply digits_regular; exact Hi|].
      constructor; [reflexivity|apply digits_regular; exact Hf]. }
  split; [|split; [|split; [exact Hreg|]]].
  - rewrite Et. apply NumProofs.real_spelling; try assumption.
    + destruct Hsg as [->| ->]; [left; reflexivity|right; right; reflexivity].
    + discriminate.
  - rewrite Et. destruct sg; discriminate.
  - unfold fl_of_text.
    assert (Es : strip_plus t = t).
    { rewrite Et. destruct Hsg as [->| ->]; cbn [app strip_plus]; [rewrite Hp|]; reflexivity. }
    rewrite Es.
    assert (Hmem : memN 46 t = true).
    { apply memN_In. rewrite Et. apply in_or_app. right. apply in_or_app. right. left. reflexivity. }
    rewrite Hmem. reflexivity.
Qed.

(* ------------------------------------------------------------------ *)
(** * one operand: the content model's serializer is the shared one, and the value comes back *)

Definition c_items : bool -> list prim -> res bytes :=
  fix items (first : bool) (l : list prim) : res bytes :=
    match l with
    | [] => Ok []
    | x :: t => do a <- ser_prim x; do r <- items false t; Ok ((if first then [] else [32]) ++ a ++ r)
    end.
Definition c_entries : list (bytes * prim) -> res bytes :=
  fix entries (d : list (bytes * prim)) : res bytes :=
    match d with
    | [] => Ok []
    | (k, v) :: t => do kk <- ser_name k; do a <- ser_prim v; do r <- entries t; Ok (kk ++ 32 :: a ++ 10 :: r)
    end.
Lemma c_ser_arr l : ser_prim (PArr l) = (do r <- c_items true l; Ok (91 :: r ++ [93])).
Proof. reflexivity. Qed.
Lemma c_ser_dict d : ser_prim (PDict d) = (do r <- c_entries d; Ok (bs "<<" ++ 10 :: r ++ bs ">>" ++ [10])).
Proof. reflexivity. Qed.

Definition syn_entries : list (bytes * prim) -> list (bytes * Prim.prim) :=
  fix entries (d : list (bytes * prim)) : list (bytes * Prim.prim) :=
    match d with [] => [] | (k, x) :: t => (k, to_syn x) :: entries t end.
Lemma to_syn_dict d : to_syn (PDict d) = Prim.PDict (syn_entries d).
Proof. reflexivity. Qed.

Definition of_syn_items : list Prim.prim -> res (list prim) :=
  fix items (l : list Prim.prim) : res (list prim) :=
    match l with
    | [] => Ok []
    | x :: t => do a <- of_syn x; do r <- items t; Ok (a :: r)
    end.
Definition of_syn_entries : list (bytes * Prim.prim) -> res (list (bytes * prim)) :=
  fix entries (d : list (bytes * Prim.prim)) : res (list (bytes * prim)) :=
    match d with
    | [] => Ok []
    | (k, x) :: t => do a <- of_syn x; do r <- entries t; Ok ((k, a) :: r)
    end.
Lemma of_syn_arr l : of_syn (Prim.PArr l) = (do r <- of_syn_items l; Ok (PArr r)).
Proof. reflexivity. Qed.
Lemma of_syn_dict d : of_syn (Prim.PDict d) = (do r <- of_syn_entries d; Ok (PDict r)).
Proof. reflexivity. Qed.

Lemma ser_string_same s : ser_string s = Serialize.ser_string s.
Proof. reflexivity. Qed.
Lemma ser_name_same n : ser_name n = Ok (Serialize.ser_name n).
Proof. reflexivity. Qed.

Lemma bytes_ok_wf l : forallb byte_okb l = true -> wf_bytes l.
Proof.
  rewrite forallb_forall. intros H. apply Forall_forall. intros b Hb. apply N.ltb_lt. apply H. exact Hb.
Qed.

Lemma keys_syn d : Spells.keys (syn_entries d) = List.map fst d.
Proof. induction d as [|[k v] t IH]; [reflexivity|]. cbn [syn_entries Spells.keys List.map fst]. f_equal. exact IH. Qed.

Lemma keys_nodup l : keys_nodupb l = true -> NoDup l.
Proof.
  induction l as [|k t IH]; cbn [keys_nodupb]; intros H; [constructor|].
  apply andb_true_iff in H. destruct H as [H1 H2]. constructor; [|apply IH; exact H2].
  intros Hin. apply negb_true_iff in H1.
  assert (existsb (beqb k) t = true); [|congruence].
  apply existsb_exists. exists k. split; [exact Hin|apply beqb_refl].
Qed.

Definition prim_good (p : prim) : Prop :=
  SerProofs.storable (to_syn p) /\ of_syn (to_syn p) = Ok p /\ ser_prim p = Serialize.ser (to_syn p).

Lemma i32b_range z : i32b z = true -> (-2147483648 <= z <= 2147483647)%Z.
Proof. unfold i32b. rewrite andb_true_iff, !Z.leb_le. tauto. Qed.

Theorem prim_wf_good : forall p, prim_wfb p = true -> prim_good p.
Proof.
  induction p using cprim_ind; intros Hwf; unfold prim_good.
  - repeat split. constructor.
  - repeat split; try constructor; destruct b; reflexivity.
  - cbn [prim_wfb] in Hwf. repeat split. constructor. apply i32b_range. exact Hwf.
  - destruct f as [z|t]; [discriminate Hwf|]. cbn [prim_wfb] in Hwf.
    destruct (real_text_facts t Hwf) as (Hw & Hne & Hreg & Hfl).
    cbn [to_syn fl_fmt of_syn]. rewrite Hfl. repeat split. constructor; assumption.
  - cbn [prim_wfb] in Hwf. unfold name_okb in Hwf. apply andb_true_iff in Hwf. destruct Hwf as [Hb Hu].
    repeat split. constructor; [apply bytes_ok_wf; exact Hb|exact Hu].
  - cbn [prim_wfb] in Hwf. repeat split. constructor. apply bytes_ok_wf. exact Hwf.
  - (* array *)
    cbn [prim_wfb] in Hwf.
    assert (Hall : Forall prim_good l).
    { apply Forall_forall. intros x Hin. rewrite Forall_forall in H. apply H; [exact Hin|].
      rewrite forallb_forall in Hwf. apply Hwf. exact Hin. }
    clear H Hwf. cbn [to_syn]. rewrite of_syn_arr, c_ser_arr, SerProofs.ser_arr.
    assert (Hst : Forall SerProofs.storable (List.map to_syn l)).
    { induction Hall as [|x t (Hx & _) _ IH]; cbn [List.map]; constructor; assumption. }
    assert (Hof : of_syn_items (List.map to_syn l) = Ok l).
    { clear - Hall. induction Hall as [|x t (_ & Hx & _) _ IH]; cbn [List.map of_syn_items]; [reflexivity|].
      rewrite Hx. cbn [bind]. rewrite IH. reflexivity. }
    assert (Hser : forall first, c_items first l = SerProofs.ser_items (List.map to_syn l) first).
    { clear - Hall. induction Hall as [|x t (_ & _ & Hx) _ IH]; intros first; cbn [List.map c_items SerProofs.ser_items]; [reflexivity|].
      rewrite Hx, IH. reflexivity. }
    split; [constructor; exact Hst|]. split; [rewrite Hof; reflexivity|].
    rewrite Hser. destruct (SerProofs.ser_items (List.map to_syn l) true); reflexivity.
  - (* dictionary *)
    cbn [prim_wfb] in Hwf. apply andb_true_iff in Hwf. destruct Hwf as [Hnd Hwf]. fold dict_wfb in Hwf.
    rewrite to_syn_dict, of_syn_dict, c_ser_dict, SerProofs.ser_dict.
    assert (Hall : Forall (fun kv => name_okb (fst kv) = true /\ prim_good (snd kv)) d).
    { clear Hnd. induction d as [|[k v] t IH]; [constructor|].
      cbn [dict_wfb] in Hwf. apply andb_true_iff in Hwf. destruct Hwf as [Hwf Ht].
      apply andb_true_iff in Hwf. destruct Hwf as [Hk Hv].
      inversion H as [|? ? Hv' Ht']; subst. constructor; [split; [exact Hk|apply Hv'; exact Hv]|apply IH; assumption]. }
    clear H Hwf.
    assert (Hst : Forall (fun kv => wf_bytes (fst kv) /\ Utf8.is_utf8 (fst kv) = true /\ SerProofs.storable (snd kv))
                         (syn_entries d)).
    { clear - Hall. induction Hall as [|[k v] t (Hk & Hv & _) _ IH]; cbn [syn_entries]; constructor; [|exact IH].
      cbn [fst snd] in *. unfold name_okb in Hk. apply andb_true_iff in Hk. destruct Hk as [Hb Hu].
      split; [apply bytes_ok_wf; exact Hb|split; assumption]. }
    assert (Hof : of_syn_entries (syn_entries d) = Ok d).
    { clear - Hall. induction Hall as [|[k v] t (_ & _ & Hv & _) _ IH]; cbn [syn_entries of_syn_entries]; [reflexivity|].
      cbn [snd] in Hv. rewrite Hv. cbn [bind]. rewrite IH. reflexivity. }
    assert (Hser : c_entries d = SerProofs.ser_entries (syn_entries d)).
    { clear - Hall. induction Hall as [|[k v] t (_ & _ & _ & Hv) _ IH]; cbn [syn_entries c_entries SerProofs.ser_entries]; [reflexivity|].
      cbn [snd] in Hv. rewrite ser_name_same, Hv, IH. cbn [bind].
      destruct (Serialize.ser (to_syn v)); cbn [bind]; try reflexivity. }
    split; [constructor; [rewrite keys_syn; apply keys_nodup; exact Hnd|exact Hst]|].
    split; [rewrite Hof; reflexivity|].
    rewrite Hser. destruct (SerProofs.ser_entries (syn_entries d)); reflexivity.
Qed.

(* ------------------------------------------------------------------ *)
(** * operator keywords are regular tokens that are no object *)

Lemma find_kw_sound w l k : find_kw w l = Some k -> w = kw_name k.
Proof.
  induction l as [|k0 t IH]; cbn [find_kw]; [discriminate|].
  destruct (beqb w (kw_name k0)) eqn:E; [|exact IH].
  intros H. inversion H; subst. apply beqb_eq. exact E.
Qed.

Lemma kw_ok_name w : kw_okb w = true -> exists k, w = kw_name k /\ k <> KBI.
Proof.
  unfold kw_okb, lookup_kw. destruct (find_kw w all_kwd) as [k|] eqn:E; [|discriminate].
  intros H. apply find_kw_sound in E. exists k. split; [exact E|].
  intros ->. subst w. vm_compute in H. discriminate.
Qed.

Definition none_tests : bool * bool * option bytes * option bytes * bool * bool * bool * bool * bool * bool :=
  (false, false, None, None, false, false, false, false, false, false).

Lemma kw_tests k : ParserProofs.tests7 (kw_name k) none_tests.
Proof. destruct k; repeat split. Qed.

Lemma kw_regular k : kw_name k <> [] /\ Forall (fun b => Lexer.is_reg b = true) (kw_name k).
Proof. destruct k; (split; [discriminate|repeat constructor]). Qed.

Lemma kw_not_special k :
  Lexer.bytes_eqb (kw_name k) Parser.kw_R = false /\ Lexer.bytes_eqb (kw_name k) Parser.kw_stream = false /\
  Utf8.is_utf8 (kw_name k) = true.
Proof. destruct k; repeat split. Qed.

Lemma parse_body_unknown f R cx flags depth w s1 :
  ParserProofs.tests7 w none_tests -> ParserProofs.parse_body f R cx flags depth w s1 = Err Parser.E_UNKNOWN.
Proof.
  unfold ParserProofs.tests7, none_tests. intros (T1 & T2 & T3 & T4 & T5 & T6 & T7 & T8 & T9 & T10).
  unfold ParserProofs.parse_body. rewrite T1, T2, T3, T4, T5, T6, T7, T8, T9, T10. reflexivity.
Qed.

(* ------------------------------------------------------------------ *)
(** * a written token stream as an item sequence, and its text *)

Fixpoint items_toks (ts : list tok) : list Spells.item :=
  match ts with
  | [] => []
  | TObj p :: r => SerProofs.items_of (to_syn p) ++ items_toks r
  | TWord w :: r => Spells.IWord w :: items_toks r
  | TRaw _ :: r => items_toks r
  end.

Definition all_ws (l : bytes) : Prop := Forall (fun b => Lexer.is_ws b = true) l.

Lemma all_ws_sep l : all_ws l -> LexProofs.sep l.
Proof. induction 1; [constructor|apply LexProofs.sep_ws; assumption]. Qed.

Lemma toks_ok_obj p r : toks_okb (TObj p :: r) = true ->
  prim_wfb p = true /\ Spells.vdepth (to_syn p) <= MAX_DEPTH /\ r <> [] /\ toks_okb r = true.
Proof.
  cbn [toks_okb]. rewrite !andb_true_iff. intros [[[H1 H2] H3] H4].
  repeat split; try assumption.
  - apply N.leb_le. exact H2.
  - destruct r; [discriminate|discriminate].
Qed.

(** the text of a stream of written tokens renders its items, after any white-space, up to the final newline *)
Lemma renders_toks ts : toks_okb ts = true -> ts <> [] ->
  forall b, render_toks ts = Ok b -> forall ws, all_ws ws ->
  RenderProofs.renders (items_toks ts) (ws ++ b) [10].
Proof.
  induction ts as [|[p|w|d] r IH]; intros Hok Hne b Hb ws Hws; [contradiction| | |discriminate Hok].
  - (* operand *)
    destruct (toks_ok_obj p r Hok) as (Hp & Hd & Hr & Hokr).
    destruct (prim_wf_good p Hp) as (Hst & _ & Hser).
    cbn [render_toks] in Hb. rewrite Hser in Hb.
    destruct (SerProofs.ser_spells (to_syn p) Hst) as (core & Hs & Hsp & Hrn).
    rewrite Hs in Hb. cbn [bind] in Hb.
    destruct (render_toks r) as [br| | |] eqn:Ebr; cbn [bind] in Hb; try discriminate.
    inversion Hb; subst b; clear Hb.
    cbn [items_toks].
    apply (RenderProofs.renders_app _ _ _ (SerProofs.trail (to_syn p) ++ 32 :: br)).
    + apply SerProofs.renders_ws_prefix; [exact Hws|apply SerProofs.items_nonempty; exact Hst|].
      rewrite <- !app_assoc. apply Hrn. reflexivity.
    + replace (SerProofs.trail (to_syn p) ++ 32 :: br) with ((SerProofs.trail (to_syn p) ++ [32]) ++ br)
        by (rewrite <- app_assoc; reflexivity).
      apply (IH Hokr Hr br eq_refl).
      apply Forall_app. split; [apply SerProofs.trail_ws|apply SerProofs.ws_sp].
  - (* keyword *)
    cbn [toks_okb] in Hok. apply andb_true_iff in Hok. destruct Hok as [Hk Hokr].
    destruct (kw_ok_name w Hk) as (k & -> & _). destruct (kw_regular k) as [Hn Hreg].
    cbn [render_toks] in Hb.
    destruct (render_toks r) as [br| | |] eqn:Ebr; cbn [bind] in Hb; try discriminate.
    inversion Hb; subst b; clear Hb. cbn [items_toks].
    replace (ws ++ kw_name k ++ 10 :: br) with (ws ++ kw_name k ++ ([10] ++ br)) by reflexivity.
    apply RenderProofs.rn_reg; [apply all_ws_sep; exact Hws|exact Hn|exact Hreg|reflexivity|].
    destruct r as [|t r'].
    + cbn [render_toks] in Ebr. inversion Ebr; subst br. cbn [items_toks app]. constructor.
    + apply (IH Hokr ltac:(discriminate) br eq_refl). apply SerProofs.ws_nl.
Qed.

(** what follows a token in such a stream never turns an integer into a reference, nor a dictionary into a stream *)
Lemma items_follow ts s_end : toks_okb ts = true -> ts <> [] ->
  ParserProofs.follow_ok (items_toks ts) s_end /\ ParserProofs.nostream_at (items_toks ts) s_end /\
  ParserProofs.notR_at (items_toks ts) s_end.
Proof.
  induction ts as [|[p|w|d] r IH]; intros Hok Hne; [contradiction| |
    |discriminate Hok].
  - destruct (toks_ok_obj p r Hok) as (Hp & Hd & Hr & Hokr).
    destruct (prim_wf_good p Hp) as (Hst & _ & _).
    destruct (SerProofs.ser_spells (to_syn p) Hst) as (core & _ & Hsp & _).
    destruct (IH Hokr Hr) as (_ & _ & HR).
    cbn [items_toks]. split; [|split].
    + eapply ParserProofs.follow_ok_value; [exact Hsp|exact HR].
    + eapply ParserProofs.nostream_value. exact Hsp.
    + eapply ParserProofs.notR_value. exact Hsp.
  - cbn [toks_okb] in Hok. apply andb_true_iff in Hok. destruct Hok as [Hk Hokr].
    destruct (kw_ok_name w Hk) as (k & -> & _).
    destruct (kw_not_special k) as (HR & HS & _).
    destruct (kw_tests k) as (_ & Hint & _).
    cbn [items_toks]. split; [|split].
    + apply ParserProofs.follow_ok_nonint. exact Hint.
    + exact HS.
    + exact HR.
Qed.

(** the conditions on the remaining text, from the conditions on the remaining items *)
Lemma follow_lift s k s_end : Spells.Lexes s k s_end -> ParserProofs.follow_ok k s_end -> ParserProofs.follow_ok [] s.
Proof.
  intros HL HF. destruct k as [|i k']; [inversion HL; subst; exact HF|].
  cbn [ParserProofs.follow_ok] in *. intros t s' Hn Hi t2 s2 Hn2.
  inversion HL; subst; match goal with H : Lexer.next s = Ok _ |- _ => rewrite H in Hn; inversion Hn; subst end;
    try discriminate Hi.
  cbn [Spells.word_of] in HF. specialize (HF Hi).
  match goal with H : Spells.Lexes s' k' s_end |- _ => rename H into HL' end.
  destruct k' as [|i2 k'']; cbn [ParserProofs.notR_at] in HF.
  - inversion HL'; subst. eapply HF. exact Hn2.
  - destruct (ParserProofs.Lexes_head _ _ _ _ HL') as [s3 Hn3]. rewrite Hn3 in Hn2. inversion Hn2; subst. exact HF.
Qed.

Lemma nostream_lift s k s_end : Spells.Lexes s k s_end -> ParserProofs.nostream_at k s_end -> ParserProofs.nostream_at [] s.
Proof.
  intros HL HN. destruct k as [|i k']; [inversion HL; subst; exact HN|].
  cbn [ParserProofs.nostream_at] in *. destruct (ParserProofs.Lexes_head _ _ _ _ HL) as [s1 Hn].
  exists (Spells.word_of i). split; [eapply ParserProofs.next_peek; exact Hn|exact HN].
Qed.

(* ------------------------------------------------------------------ *)
(** * the token loop on the written text *)

Definition cont (img : list (bytes * prim) -> bytes -> res op) (f : nat) (st : bst) (buf : list prim) (s : Lexer.lx)
  : res (list op) :=
  match Lexer.lrest s with [] => Ok [] | _ :: _ => parse_loop img f st buf s end.

Lemma parse_loop_S img f st buf s :
  parse_loop img (S f) st buf s =
  match parse_obj s with
  | Ok (v, s1) => do p <- of_syn v; cont img f st (buf ++ [p]) s1
  | Err e =>
      if e =? Lexer.E_EOF then Ok []
      else
        do (w, s1) <- Lexer.next s;
        if negb (Utf8.is_utf8 w) then Err Lexer.E_PARSE
        else if beqb w kw_BI then
          let '(r, s2) := image_read s1 in
          match (do (dict, data) <- r; img dict data) with
          | Ok o => do rest <- cont img f st [] s2; Ok (o :: rest)
          | Err e => if allow_invalid_ops then cont img f st [] s2 else Err e
          | Panic x => Panic x
          | OutOfFuel => OutOfFuel
          end
        else
          let '(pushed, out) := add_word w buf st in
          match out with
          | Ok st' => do rest <- cont img f st' [] s1; Ok (pushed ++ rest)
          | Err e => if allow_invalid_ops then do rest <- cont img f st [] s1; Ok (pushed ++ rest) else Err e
          | Panic x => Panic x
          | OutOfFuel => OutOfFuel
          end
  | Panic x => Panic x
  | OutOfFuel => OutOfFuel
  end.
Proof. reflexivity. Qed.

Lemma cont_ne img f st buf p tl : tl <> [] ->
  cont img f st buf (Lexer.mkLx p tl) = parse_loop img f st buf (Lexer.mkLx p tl).
Proof. destruct tl; [contradiction|reflexivity]. Qed.

Lemma parse_obj_step s tok s1 : Lexer.next s = Ok (tok, s1) ->
  parse_obj s = ParserProofs.parse_body (2 * length (Lexer.lrest s) + 3) Parser.no_resolve None F_ANY MAX_DEPTH tok s1.
Proof.
  intros H. unfold parse_obj, Parser.parse_ctx, Parser.fuel_for.
  replace (2 * length (Lexer.lrest s) + 4)%nat with (S (2 * length (Lexer.lrest s) + 3)) by lia.
  apply ParserProofs.parse_step. exact H.
Qed.

Lemma parse_obj_eof tl p : all_ws tl -> parse_obj (Lexer.mkLx p tl) = Err Lexer.E_EOF.
Proof.
  intros H. unfold parse_obj, Parser.parse_ctx, Parser.fuel_for.
  replace (2 * length (Lexer.lrest (Lexer.mkLx p tl)) + 4)%nat with (S (2 * length tl + 3)) by (cbn [Lexer.lrest]; lia).
  rewrite ParserProofs.parse_fuel_S, (RenderProofs.next_all_ws tl p H). reflexivity.
Qed.

Theorem loop_toks img : forall ts, toks_okb ts = true -> forall b, render_toks ts = Ok b ->
  forall ws, all_ws ws -> forall fuel p st buf, (length ts < fuel)%nat ->
  parse_loop img fuel st buf (Lexer.mkLx p (ws ++ b)) = parse_toks st buf None ts.
Proof.
  induction ts as [|[q|w|d] r IH]; intros Hok b Hb ws Hws fuel p st buf Hfuel;
    (destruct fuel as [|f]; [cbn [length] in Hfuel; lia|]); rewrite parse_loop_S.
  - (* end of the stream *)
    cbn [render_toks] in Hb. inversion Hb; subst b. rewrite app_nil_r, (parse_obj_eof ws p Hws). reflexivity.
  - (* operand *)
    destruct (toks_ok_obj q r Hok) as (Hq & Hd & Hr & Hokr).
    destruct (prim_wf_good q Hq) as (Hst & Hof & Hser).
    cbn [render_toks] in Hb. rewrite Hser in Hb.
    destruct (SerProofs.ser_spells (to_syn q) Hst) as (core & Hs & Hsp & Hrn).
    rewrite Hs in Hb. cbn [bind] in Hb.
    destruct (render_toks r) as [br| | |] eqn:Ebr; cbn [bind] in Hb; try discriminate.
    inversion Hb; subst b; clear Hb.
    set (tr := SerProofs.trail (to_syn q)) in *.
    set (tl := tr ++ 32 :: br).
    assert (Htext : ws ++ (core ++ tr) ++ 32 :: br = ws ++ core ++ tl)
      by (unfold tl; rewrite <- !app_assoc; reflexivity).
    rewrite Htext.
    assert (Hws' : all_ws (tr ++ [32])) by (apply Forall_app; split; [apply SerProofs.trail_ws|apply SerProofs.ws_sp]).
    assert (Etl : tl = (tr ++ [32]) ++ br) by (unfold tl; rewrite <- app_assoc; reflexivity).
    (* the text after the operand lexes to the remaining items *)
    pose proof (renders_toks r Hokr Hr br Ebr (tr ++ [32]) Hws') as Hrr. rewrite <- Etl in Hrr.
    set (p' := p + lenN ws + lenN core).
    destruct (RenderProofs.renders_Lexes _ _ _ Hrr p') as (pe & HL & _).
    destruct (items_follow r (Lexer.mkLx pe [10]) Hokr Hr) as (HF & HN & _).
    assert (Hparse : parse_obj (Lexer.mkLx p (ws ++ core ++ tl)) = Ok (to_syn q, Lexer.mkLx p' tl)).
    { unfold parse_obj. apply (RenderProofs.parse_rendered (to_syn q) (SerProofs.items_of (to_syn q))); try assumption.
      - apply SerProofs.renders_ws_prefix; [exact Hws|apply SerProofs.items_nonempty; exact Hst|].
        unfold tl. apply Hrn. reflexivity.
      - unfold p'. rewrite !RenderProofs.lenN_app. lia.
      - eapply follow_lift; eassumption.
      - eapply nostream_lift; eassumption. }
    rewrite Hparse, Hof. cbn [bind].
    assert (Hne : tl <> []) by (unfold tl; destruct tr; discriminate).
    rewrite (cont_ne _ _ _ _ _ _ Hne), Etl.
    cbn [parse_toks]. apply (IH Hokr br eq_refl _ Hws'). cbn [length] in Hfuel. lia.
  - (* operator keyword *)
    cbn [toks_okb] in Hok. apply andb_true_iff in Hok. destruct Hok as [Hk Hokr].
    destruct (kw_ok_name w Hk) as (k & -> & HBI). destruct (kw_regular k) as [Hn Hreg].
    destruct (kw_not_special k) as (_ & _ & Hutf).
    cbn [render_toks] in Hb.
    destruct (render_toks r) as [br| | |] eqn:Ebr; cbn [bind] in Hb; try discriminate.
    inversion Hb; subst b; clear Hb.
    assert (Hnext : Lexer.next (Lexer.mkLx p (ws ++ kw_name k ++ 10 :: br)) =
                    Ok (kw_name k, Lexer.mkLx (p + lenN ws + lenN (kw_name k)) (10 :: br))).
    { apply (RenderProofs.next_of_next_word _ _ (p + lenN ws)).
      apply LexProofs.next_word_regular; [apply all_ws_sep; exact Hws|exact Hn|exact Hreg|reflexivity]. }
    rewrite (parse_obj_step _ _ _ Hnext), (parse_body_unknown _ _ _ _ _ _ _ (kw_tests k)).
    change (Parser.E_UNKNOWN =? Lexer.E_EOF) with false. cbv iota.
    rewrite Hnext. cbn [bind]. rewrite Hutf. cbn [negb]. cbv iota.
    unfold kw_BI. rewrite (kw_name_not_BI k HBI).
    cbn [parse_toks]. rewrite (kw_name_not_BI k HBI).
    assert (Hcont : forall st', cont img f st' [] (Lexer.mkLx (p + lenN ws + lenN (kw_name k)) (10 :: br)) =
                                parse_toks st' [] None r).
    { intros st'. unfold cont. cbn [Lexer.lrest]. change (10 :: br) with ([10] ++ br).
      apply (IH Hokr br eq_refl [10] SerProofs.ws_nl). cbn [length] in Hfuel. lia. }
    destruct (add_word (kw_name k) buf st) as [pushed [st'|e|x|]]; rewrite ?Hcont; reflexivity.
  - discriminate Hok.
Qed.

(* ------------------------------------------------------------------ *)
(** * the round trip on bytes, without a premise about the lexer *)

Lemma parse_bytes_with_eq img b : parse_bytes_with img b = parse_loop img (S (length b)) st0 [] (Lexer.mkLx 0 b).
Proof.
  unfold parse_bytes_with. destruct b as [|x b']; [|reflexivity].
  rewrite parse_loop_S. rewrite (parse_obj_eof [] 0 (Forall_nil _)). reflexivity.
Qed.

Lemma render_toks_length ts : forall b, render_toks ts = Ok b -> (length ts <= length b)%nat.
Proof.
  induction ts as [|[p|w|d] r IH]; intros b Hb; cbn [render_toks] in Hb.
  - inversion Hb. cbn. lia.
  - destruct (ser_prim p); cbn [bind] in Hb; try discriminate.
    destruct (render_toks r) as [br| | |]; cbn [bind] in Hb; try discriminate.
    inversion Hb; subst. specialize (IH br eq_refl). rewrite app_length. cbn [length]. lia.
  - destruct (render_toks r) as [br| | |]; cbn [bind] in Hb; try discriminate.
    inversion Hb; subst. specialize (IH br eq_refl). rewrite app_length. cbn [length]. lia.
  - discriminate.
Qed.

(** what the token loop reads from the text of a written token stream is what the builder makes of those tokens *)
Theorem lex_reads_back_discharged img ts b :
  toks_okb ts = true -> render_toks ts = Ok b -> parse_bytes_with img b = parse_ops_toks ts.
Proof.
  intros Hok Hb. rewrite parse_bytes_with_eq. unfold parse_ops_toks.
  apply (loop_toks img ts Hok b Hb [] (Forall_nil _)).
  pose proof (render_toks_length ts b Hb). lia.
Qed.

(** serialize_ops then parse_ops, on bytes, is the identity on every accepted sequence whose operands are writable *)
Theorem roundtrip_bytes_closed img ops : accepted ops -> writable ops ->
  forall b, ser_ops ops = Ok b -> parse_bytes_with img b = Ok ops.
Proof.
  intros Hacc Hw b Hb. destruct (roundtrip_tokens ops Hacc) as [ts [Hts Hp]].
  unfold writable, writableb in Hw. rewrite Hts in Hw.
  unfold ser_ops in Hb. unfold ser_toks in Hts. rewrite (ser_factor _ _ _ _ Hts) in Hb.
  rewrite (lex_reads_back_discharged img ts b Hw Hb). exact Hp.
Qed.

(** … and the writer does produce bytes for such a sequence *)
Theorem ser_ops_writable ops : accepted ops -> writable ops -> exists b, ser_ops ops = Ok b.
Proof.
  intros Hacc Hw. destruct (ser_ops_defined ops Hacc) as [ts [Hts Hs]].
  unfold writable, writableb in Hw. rewrite Hts in Hw. rewrite Hs. clear Hs Hts Hacc.
  induction ts as [|[p|w|d] r IH]; [exists []; reflexivity| | |discriminate Hw].
  - destruct (toks_ok_obj p r Hw) as (Hp & _ & _ & Hr). destruct (IH Hr) as [br Hbr].
    destruct (prim_wf_good p Hp) as (Hst & _ & Hser).
    destruct (SerProofs.ser_spells (to_syn p) Hst) as (core & Hs & _).
    cbn [render_toks]. rewrite Hser, Hs, Hbr. eexists; reflexivity.
  - cbn [toks_okb] in Hw. apply andb_true_iff in Hw. destruct Hw as [_ Hr]. destruct (IH Hr) as [br Hbr].
    cbn [render_toks]. rewrite Hbr. eexists; reflexivity.
Qed.

(** non-vacuity *)
Example demo_writable : writable demo_ops.
Proof. vm_compute. reflexivity. Qed.
Example demo_roundtrip_bytes : exists b, ser_ops demo_ops = Ok b /\ parse_bytes_raw b = Ok demo_ops.
Proof.
  destruct (ser_ops_writable demo_ops demo_accepted demo_writable) as [b Hb]. exists b. split; [exact Hb|].
  apply roundtrip_bytes_closed; [exact demo_accepted|exact demo_writable|exact Hb].
Qed.
