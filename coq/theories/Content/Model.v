(** Content/Model.v — executable model of pdf/src/content.rs (content-stream operators).

    Every definition names its Rust anchor.  No proofs in this file.

    Conventions (DESIGN.md §4, §12.C08):
    - an [f32] is carried as the decimal text Rust's [{}] prints for it, split into the two
      shapes the PDF lexer distinguishes: [FInt z] (no '.', printed [dec_of_Z z], lexed as an
      Integer and converted back by [as_number]) and [FReal t] (text with a '.').  The only
      non-canonical text a finite f32 can print is "-0" (negative zero), carried as [FReal "-0"].
      No float ever appears in a Coq equality; f32 [==] is [feqb] (text equality modulo the
      sign of zero).
    - operands are already-parsed primitives ([prim]); the conversion text <-> operand list is
      pdf/src/parser and enters the theorems as a Section function (Content/Proofs.v).
    - the formatting content.rs / primitive.rs do themselves (numbers, names, strings, arrays,
      dictionaries, line layout) is modelled concretely ([ser_prim], [render_line]). *)
From Coq Require Import String Ascii.
From PdfV Require Import Base.Prelude Gen.Generated.
Open Scope N_scope.

(** byte string of a Coq string literal (model constants only) *)
Definition bs (s : string) : bytes := List.map (fun a => N_of_ascii a) (list_ascii_of_string s).

Fixpoint beqb (a b : bytes) : bool :=
  match a, b with
  | [], [] => true
  | x :: a', y :: b' => (x =? y) && beqb a' b'
  | _, _ => false
  end.

(* ------------------------------------------------------------------ *)
(** * numbers *)

Inductive fl : Type :=
| FInt (z : Z)          (* prints without '.', e.g. 3, -12, 100000000000000000000 *)
| FReal (t : bytes).    (* prints with '.', e.g. 0.5, -12.25; also the text "-0" *)

Definition neg_zero : bytes := [45; 48].

(* f32 Display ({}), Rust std: the carried text *)
Definition fl_fmt (f : fl) : bytes :=
  match f with FInt z => dec_of_Z z | FReal t => t end.

(* normal form for f32 == : negative zero equals zero *)
Definition fl_key (f : fl) : fl :=
  match f with
  | FReal t => if beqb t neg_zero then FInt 0 else f
  | _ => f
  end.

Definition fl_eqb_syn (a b : fl) : bool :=
  match a, b with
  | FInt x, FInt y => Z.eqb x y
  | FReal s, FReal t => beqb s t
  | _, _ => false
  end.

(* f32 PartialEq (finite values) *)
Definition feqb (a b : fl) : bool := fl_eqb_syn (fl_key a) (fl_key b).

(* f32 Neg: exact, flips the sign of the printed text *)
Definition fl_neg (f : fl) : fl :=
  match f with
  | FInt z => if Z.eqb z 0 then FReal neg_zero else FInt (Z.opp z)
  | FReal t =>
      if beqb t neg_zero then FInt 0
      else match t with
           | c :: r => if c =? 45 then FReal r else FReal (45 :: t)
           | [] => FReal [45]
           end
  end.

(* content.rs: Point *)
Record point : Type := mkpt { px : fl; py : fl }.
(* content.rs: Matrix *)
Record matrix : Type := mkmat { ma : fl; mb : fl; mc : fl; md : fl; me : fl; mf : fl }.

(* Point: derive(PartialEq) *)
Definition pt_eqb (a b : point) : bool := feqb (px a) (px b) && feqb (py a) (py b).

(* ------------------------------------------------------------------ *)
(** * operands: primitive.rs Primitive, as far as content streams can contain it *)

Inductive prim : Type :=
| PNull
| PBool (b : bool)
| PInt (z : Z)                       (* Primitive::Integer(i32) *)
| PReal (f : fl)                     (* Primitive::Number(f32) *)
| PName (n : bytes)                  (* Primitive::Name, UTF-8 bytes *)
| PStr (s : bytes)                   (* Primitive::String *)
| PArr (l : list prim)
| PDict (d : list (bytes * prim)).   (* IndexMap order *)

(* the operand a printed f32 is lexed back into (parser/mod.rs: is_integer / real_number) *)
Definition pnum (f : fl) : prim :=
  match f with FInt z => PInt z | FReal _ => PReal f end.

(* ------------------------------------------------------------------ *)
(** * content.rs: enum Op and its parts *)

Inductive winding : Type := EvenOdd | NonZero.

(* content.rs: Color *)
Inductive color : Type :=
| CGray (g : fl)
| CRgb (r g b : fl)
| CCmyk (c m y k : fl)
| COther (args : list prim).

(* content.rs: TextDrawAdjusted *)
Inductive tda : Type := TdaText (s : bytes) | TdaSpacing (f : fl).

(* content.rs: enum Op (declaration order).  [j]/[c]/[m] are the enum discriminants of
   LineJoin / LineCap / TextMode; [i] is the intent's name (RenderingIntent::to_str). *)
Inductive op : Type :=
| OBeginMarkedContent (tag : bytes) (props : option prim)
| OEndMarkedContent
| OMarkedContentPoint (tag : bytes) (props : option prim)
| OClose
| OMoveTo (p : point)
| OLineTo (p : point)
| OCurveTo (c1 c2 p : point)
| ORect (x y w h : fl)
| OEndPath
| OStroke
| OFillAndStroke (w : winding)
| OFill (w : winding)
| OShade (name : bytes)
| OClip (w : winding)
| OSave
| ORestore
| OTransform (m : matrix)
| OLineWidth (w : fl)
| ODash (pattern : list fl) (phase : fl)
| OLineJoin (j : N)
| OLineCap (c : N)
| OMiterLimit (l : fl)
| OFlatness (t : fl)
| OGraphicsState (name : bytes)
| OStrokeColor (c : color)
| OFillColor (c : color)
| OFillColorSpace (name : bytes)
| OStrokeColorSpace (name : bytes)
| ORenderingIntent (i : bytes)
| OBeginText
| OEndText
| OCharSpacing (f : fl)
| OWordSpacing (f : fl)
| OTextScaling (f : fl)
| OLeading (f : fl)
| OTextFont (name : bytes) (size : fl)
| OTextRenderMode (m : N)
| OTextRise (f : fl)
| OMoveTextPosition (t : point)
| OSetTextMatrix (m : matrix)
| OTextNewline
| OTextDraw (s : bytes)
| OTextDrawAdjusted (l : list tda)
| OXObject (name : bytes)
| OInlineImage (dict : list (bytes * prim)) (data : bytes).

(* ------------------------------------------------------------------ *)
(** * operator keywords: the string patterns of OpBuilder::add, one constructor per pattern *)

Inductive kwd : Type :=
| Kb | KB | Kbstar | KBstar | KBDC | KBI | KBMC | KBT | KBX | Kc | Kcm | KCS | Kcs | Kd | Kd0 | Kd1
| KDo | KDo0 | KDP | KEI | KEMC | KET | KEX | Kf | KF | Kfstar | KG | Kg | Kgs | Kh | Ki | KID | Kj | KJ
| KK | Kk | Kl | Km | KM | KMP | Kn | Kq | KQ | Kre | KRG | Krg | Kri | Ks | KS | KSC | KSCN | Ksc | Kscn
| Ksh | KTstar | KTc | KTd | KTD | KTf | KTj | KTJ | KTL | KTm | KTr | KTs | KTw | KTz | Kv | Kw | KW
| KWstar | Ky | Kquote | Kdquote.

Definition all_kwd : list kwd :=
  [Kb; KB; Kbstar; KBstar; KBDC; KBI; KBMC; KBT; KBX; Kc; Kcm; KCS; Kcs; Kd; Kd0; Kd1;
   KDo; KDo0; KDP; KEI; KEMC; KET; KEX; Kf; KF; Kfstar; KG; Kg; Kgs; Kh; Ki; KID; Kj; KJ;
   KK; Kk; Kl; Km; KM; KMP; Kn; Kq; KQ; Kre; KRG; Krg; Kri; Ks; KS; KSC; KSCN; Ksc; Kscn;
   Ksh; KTstar; KTc; KTd; KTD; KTf; KTj; KTJ; KTL; KTm; KTr; KTs; KTw; KTz; Kv; Kw; KW;
   KWstar; Ky; Kquote; Kdquote].

(* the literal of each pattern in OpBuilder::add *)
Definition kw_name (k : kwd) : bytes :=
  match k with
  | Kb => bs "b" | KB => bs "B" | Kbstar => bs "b*" | KBstar => bs "B*" | KBDC => bs "BDC"
  | KBI => bs "BI" | KBMC => bs "BMC" | KBT => bs "BT" | KBX => bs "BX" | Kc => bs "c"
  | Kcm => bs "cm" | KCS => bs "CS" | Kcs => bs "cs" | Kd => bs "d" | Kd0 => bs "d0"
  | Kd1 => bs "d1" | KDo => bs "Do" | KDo0 => bs "Do0" | KDP => bs "DP" | KEI => bs "EI"
  | KEMC => bs "EMC" | KET => bs "ET" | KEX => bs "EX" | Kf => bs "f" | KF => bs "F"
  | Kfstar => bs "f*" | KG => bs "G" | Kg => bs "g" | Kgs => bs "gs" | Kh => bs "h"
  | Ki => bs "i" | KID => bs "ID" | Kj => bs "j" | KJ => bs "J" | KK => bs "K" | Kk => bs "k"
  | Kl => bs "l" | Km => bs "m" | KM => bs "M" | KMP => bs "MP" | Kn => bs "n" | Kq => bs "q"
  | KQ => bs "Q" | Kre => bs "re" | KRG => bs "RG" | Krg => bs "rg" | Kri => bs "ri"
  | Ks => bs "s" | KS => bs "S" | KSC => bs "SC" | KSCN => bs "SCN" | Ksc => bs "sc"
  | Kscn => bs "scn" | Ksh => bs "sh" | KTstar => bs "T*" | KTc => bs "Tc" | KTd => bs "Td"
  | KTD => bs "TD" | KTf => bs "Tf" | KTj => bs "Tj" | KTJ => bs "TJ" | KTL => bs "TL"
  | KTm => bs "Tm" | KTr => bs "Tr" | KTs => bs "Ts" | KTw => bs "Tw" | KTz => bs "Tz"
  | Kv => bs "v" | Kw => bs "w" | KW => bs "W" | KWstar => bs "W*" | Ky => bs "y"
  | Kquote => bs "'" | Kdquote => [34]
  end.

Fixpoint find_kw (w : bytes) (l : list kwd) : option kwd :=
  match l with
  | [] => None
  | k :: t => if beqb w (kw_name k) then Some k else find_kw w t
  end.

(* the string-pattern dispatch `match op { … }` of OpBuilder::add *)
Definition lookup_kw (w : bytes) : option kwd := find_kw w all_kwd.

(* ------------------------------------------------------------------ *)
(** * error kinds and panic sites *)

Definition E_NOARG : N := 1.        (* PdfError::NoOpArg *)
Definition E_UNEXPECTED : N := 2.   (* PdfError::UnexpectedPrimitive *)
Definition E_OTHER : N := 3.        (* bail!(…) *)
Definition E_UNMODELLED : N := 99.  (* input outside the modelled domain (never generated) *)
Definition P_NAME_ASCII : N := 1.   (* primitive.rs: serialize_name panic!("only ASCII") *)

(* ------------------------------------------------------------------ *)
(** * writing operands: primitive.rs *)

(* primitive.rs: serialize_name — regular printable bytes other than '#' raw, everything else as #XX
   (tables name_ser_raw_* from gen/extract_syn.py) *)
Definition hexdigit_upper (n : N) : N := if n <? 10 then 48 + n else 55 + n.
Definition ser_name_byte (c : N) : bytes :=
  if (name_ser_raw_lo <=? c) && (c <=? name_ser_raw_hi) && negb (memN c name_ser_raw_except)
  then [c] else [35; hexdigit_upper (c / 16); hexdigit_upper (c mod 16)].
Definition ser_name_body (s : bytes) : res bytes := Ok (flat_map ser_name_byte s).
Definition ser_name (s : bytes) : res bytes := do r <- ser_name_body s; Ok (47 :: r).

Definition hexdigit (n : N) : N := if n <? 10 then 48 + n else 87 + n.
(* {:02x} *)
Definition hex2 (b : N) : bytes := [hexdigit (b / 16); hexdigit (b mod 16)].

(* primitive.rs: PdfString::serialize *)
Definition ser_string (s : bytes) : bytes :=
  if existsb (fun b => string_hex_from <=? b) s
  then 60 :: flat_map hex2 s ++ [62]
  else 40 :: flat_map (fun b => if memN b string_escaped then [92; b] else if b =? str_ser_cr then [92; 114] else [b]) s ++ [41].

(* primitive.rs: Primitive::serialize, serialize_list, Dictionary::serialize *)
Fixpoint ser_prim (p : prim) : res bytes :=
  match p with
  | PNull => Ok (bs "null")
  | PBool true => Ok (bs "true")
  | PBool false => Ok (bs "false")
  | PInt z => Ok (dec_of_Z z)
  | PReal f => Ok (fl_fmt f)
  | PName n => ser_name n
  | PStr s => Ok (ser_string s)
  | PArr l =>
      let fix items (first : bool) (l : list prim) : res bytes :=
        match l with
        | [] => Ok []
        | x :: t => do a <- ser_prim x; do r <- items false t;
                    Ok ((if first then [] else [32]) ++ a ++ r)
        end in
      do r <- items true l; Ok (91 :: r ++ [93])
  | PDict d =>
      let fix entries (d : list (bytes * prim)) : res bytes :=
        match d with
        | [] => Ok []
        | (k, v) :: t => do kk <- ser_name k; do a <- ser_prim v; do r <- entries t;
                         Ok (kk ++ 32 :: a ++ 10 :: r)     (* serialize_name(key), " ", value, "\n" *)
        end in
      do r <- entries d; Ok (bs "<<" ++ 10 :: r ++ bs ">>" ++ [10])
  end.

(* ------------------------------------------------------------------ *)
(** * content.rs: serialize_ops *)

Definition num2 (p : point) : list prim := [pnum (px p); pnum (py p)].
Definition num6 (m : matrix) : list prim :=
  [pnum (ma m); pnum (mb m); pnum (mc m); pnum (md m); pnum (me m); pnum (mf m)].

Definition tda_prim (x : tda) : prim :=
  match x with TdaText s => PStr s | TdaSpacing f => pnum f end.

(* one iteration of the `while ops.len() > 0` loop: the operands written (in order), the keyword,
   the new current_point and [advance - 1].  Close, Rect and the path-painting operations reset current_point
   (the `matches!` after the match): the loop does not know the current point after them *)
Definition ser_head (cur : option point) (o : op) (rest : list op)
  : res (list prim * kwd * option point * nat) :=
  match o with
  | OBeginMarkedContent tag (Some p) => Ok ([PName tag; p], KBDC, cur, O)
  | OBeginMarkedContent tag None => Ok ([PName tag], KBMC, cur, O)
  | OMarkedContentPoint tag (Some p) => Ok ([PName tag; p], KDP, cur, O)
  | OMarkedContentPoint tag None => Ok ([PName tag], KMP, cur, O)
  | OEndMarkedContent => Ok ([], KEMC, cur, O)
  | OClose =>
      match rest with
      | OStroke :: _ => Ok ([], Ks, None, 1%nat)
      | OFillAndStroke NonZero :: _ => Ok ([], Kb, None, 1%nat)
      | OFillAndStroke EvenOdd :: _ => Ok ([], Kbstar, None, 1%nat)
      | _ => Ok ([], Kh, None, O)
      end
  | OMoveTo p => Ok (num2 p, Km, Some p, O)
  | OLineTo p => Ok (num2 p, Kl, Some p, O)
  | OCurveTo c1 c2 p =>
      if match cur with Some q => pt_eqb c1 q | None => false end
      then Ok (num2 c2 ++ num2 p, Kv, Some p, O)
      else if pt_eqb c2 p then Ok (num2 c1 ++ num2 p, Ky, Some p, O)
      else Ok (num2 c1 ++ num2 c2 ++ num2 p, Kc, Some p, O)
  | ORect x y w h => Ok ([pnum x; pnum y; pnum w; pnum h], Kre, None, O)
  | OEndPath => Ok ([], Kn, None, O)
  | OStroke => Ok ([], KS, None, O)
  | OFillAndStroke NonZero => Ok ([], KB, None, O)
  | OFillAndStroke EvenOdd => Ok ([], KBstar, None, O)
  | OFill NonZero => Ok ([], Kf, None, O)
  | OFill EvenOdd => Ok ([], Kfstar, None, O)
  | OShade name => Ok ([PName name], Ksh, cur, O)
  | OClip NonZero => Ok ([], KW, cur, O)
  | OClip EvenOdd => Ok ([], KWstar, cur, O)
  | OSave => Ok ([], Kq, cur, O)
  | ORestore => Ok ([], KQ, cur, O)
  | OTransform m => Ok (num6 m, Kcm, cur, O)
  | OLineWidth w => Ok ([pnum w], Kw, cur, O)
  | ODash pattern phase => Ok ([PArr (List.map pnum pattern); pnum phase], Kd, cur, O)
  | OLineJoin j => Ok ([PInt (Z.of_N j)], Kj, cur, O)
  | OLineCap c => Ok ([PInt (Z.of_N c)], KJ, cur, O)
  | OMiterLimit l => Ok ([pnum l], KM, cur, O)
  | OFlatness t => Ok ([pnum t], Ki, cur, O)
  | OGraphicsState name => Ok ([PName name], Kgs, cur, O)
  | OStrokeColor (CGray g) => Ok ([pnum g], KG, cur, O)
  | OStrokeColor (CRgb r g b) => Ok ([pnum r; pnum g; pnum b], KRG, cur, O)
  | OStrokeColor (CCmyk c m y k) => Ok ([pnum c; pnum m; pnum y; pnum k], KK, cur, O)
  | OStrokeColor (COther args) => Ok (args, KSCN, cur, O)
  | OFillColor (CGray g) => Ok ([pnum g], Kg, cur, O)
  | OFillColor (CRgb r g b) => Ok ([pnum r; pnum g; pnum b], Krg, cur, O)
  | OFillColor (CCmyk c m y k) => Ok ([pnum c; pnum m; pnum y; pnum k], Kk, cur, O)
  | OFillColor (COther args) => Ok (args, Kscn, cur, O)
  | OFillColorSpace name => Ok ([PName name], Kcs, cur, O)
  | OStrokeColorSpace name => Ok ([PName name], KCS, cur, O)
  | ORenderingIntent i => Ok ([PName i], Kri, cur, O)
  | OBeginText => Ok ([], KBT, cur, O)
  | OEndText => Ok ([], KET, cur, O)
  | OCharSpacing f => Ok ([pnum f], KTc, cur, O)
  | OWordSpacing w =>
      match rest with
      | OCharSpacing c :: OTextNewline :: OTextDraw t :: _ =>
          Ok ([pnum w; pnum c; PStr t], Kdquote, cur, 3%nat)
      | _ => Ok ([pnum w], KTw, cur, O)
      end
  | OTextScaling f => Ok ([pnum f], KTz, cur, O)
  | OLeading l =>
      match rest with
      | OMoveTextPosition t :: _ =>
          if feqb l (fl_neg (py t)) then Ok (num2 t, KTD, cur, 1%nat)
          else Ok ([pnum l], KTL, cur, O)
      | _ => Ok ([pnum l], KTL, cur, O)
      end
  | OTextFont name size => Ok ([PName name; pnum size], KTf, cur, O)
  | OTextRenderMode m => Ok ([PInt (Z.of_N m)], KTr, cur, O)
  | OTextRise f => Ok ([pnum f], KTs, cur, O)
  | OMoveTextPosition t => Ok (num2 t, KTd, cur, O)
  | OSetTextMatrix m => Ok (num6 m, KTm, cur, O)
  | OTextNewline =>
      match rest with
      | OTextDraw t :: _ => Ok ([PStr t], Kquote, cur, 1%nat)
      | _ => Ok ([], KTstar, cur, O)
      end
  | OTextDraw s => Ok ([PStr s], KTj, cur, O)
  | OTextDrawAdjusted l => Ok ([PArr (List.map tda_prim l)], KTJ, cur, O)
  | OInlineImage _ _ => Err E_OTHER     (* unimplemented!() = bail! in this crate (error.rs) *)
  | OXObject name => Ok ([PName name], KDo, cur, O)
  end.

(* the text of one operator line: operands separated by one space, the keyword, '\n'
   (the write!/writeln! calls of each arm; all arms have this layout) *)
Fixpoint render_args (l : list prim) : res bytes :=
  match l with
  | [] => Ok []
  | p :: t => do a <- ser_prim p; do r <- render_args t; Ok (a ++ 32 :: r)
  end.
Definition render_line (args : list prim) (k : kwd) : res bytes :=
  do a <- render_args args; Ok (a ++ kw_name k ++ [10]).

(* content.rs: serialize_ops — the loop; fuel = number of operations *)
Fixpoint ser_go (fuel : nat) (cur : option point) (ops : list op) : res bytes :=
  match ops with
  | [] => Ok []
  | o :: rest =>
      match fuel with
      | O => OutOfFuel
      | S f =>
          do (args, k, cur2, n) <- ser_head cur o rest;
          do line <- render_line args k;
          do r <- ser_go f cur2 (skipn n rest);
          Ok (line ++ r)
      end
  end.
Definition ser_ops (ops : list op) : res bytes := ser_go (length ops) None ops.

(* ------------------------------------------------------------------ *)
(** * content.rs: operand helpers *)

(* Primitive::as_number *)
Definition as_number (p : prim) : res fl :=
  match p with PInt z => Ok (FInt z) | PReal f => Ok f | _ => Err E_UNEXPECTED end.
(* Primitive::as_integer *)
Definition as_integer (p : prim) : res Z :=
  match p with PInt z => Ok z | _ => Err E_UNEXPECTED end.

(* args.next().ok_or(PdfError::NoOpArg) *)
Definition next (a : list prim) : res (prim * list prim) :=
  match a with [] => Err E_NOARG | p :: t => Ok (p, t) end.
(* fn number *)
Definition number (a : list prim) : res (fl * list prim) :=
  do (p, a) <- next a; do f <- as_number p; Ok (f, a).
(* fn name *)
Definition name_ (a : list prim) : res (bytes * list prim) :=
  do (p, a) <- next a; match p with PName n => Ok (n, a) | _ => Err E_UNEXPECTED end.
(* fn string *)
Definition string_ (a : list prim) : res (bytes * list prim) :=
  do (p, a) <- next a; match p with PStr s => Ok (s, a) | _ => Err E_UNEXPECTED end.
(* fn point *)
Definition point_ (a : list prim) : res (point * list prim) :=
  do (x, a) <- number a; do (y, a) <- number a; Ok (mkpt x y, a).
(* fn matrix / numbers!(a,b,c,d,e,f) *)
Definition matrix_ (a : list prim) : res (matrix * list prim) :=
  do (x1, a) <- number a; do (x2, a) <- number a; do (x3, a) <- number a;
  do (x4, a) <- number a; do (x5, a) <- number a; do (x6, a) <- number a;
  Ok (mkmat x1 x2 x3 x4 x5 x6, a).
(* fn array *)
Definition array_ (a : list prim) : res (list prim) :=
  match a with
  | PArr l :: _ => Ok l
  | [] => Ok []
  | _ => Err E_NOARG
  end.

Fixpoint map_res {A B} (f : A -> res B) (l : list A) : res (list B) :=
  match l with
  | [] => Ok []
  | x :: t => do y <- f x; do r <- map_res f t; Ok (y :: r)
  end.

(* the `0 => LineJoin::Miter, …` matches: [table] pairs each accepted integer with the
   discriminant (`as u8`) of the variant it selects *)
Fixpoint assocN (x : N) (t : list (N * N)) : option N :=
  match t with
  | [] => None
  | (a, b) :: r => if x =? a then Some b else assocN x r
  end.
Definition enum_ (table : list (N * N)) (a : list prim) : res N :=
  do (p, _) <- next a; do z <- as_integer p;
  if (z <? 0)%Z then Err E_OTHER
  else match assocN (Z.to_N z) table with Some d => Ok d | None => Err E_OTHER end.

(* RenderingIntent::from_str followed by to_str (the operation carries the intent's name) *)
Fixpoint assoc_b (x : bytes) (t : list (bytes * bytes)) : option bytes :=
  match t with
  | [] => None
  | (a, b) :: r => if beqb x a then Some b else assoc_b x r
  end.

(* the TJ arm's element match *)
Definition tda_of (p : prim) : res tda :=
  match p with
  | PInt i => Ok (TdaSpacing (FInt i))
  | PReal f => Ok (TdaSpacing f)
  | PStr s => Ok (TdaText s)
  | _ => Err E_OTHER
  end.

(* ------------------------------------------------------------------ *)
(** * content.rs: OpBuilder::add

    result: the operations pushed (also when the arm then fails: the two quote operators push before they read
    their string), and the new (last, compability_section) or the error *)
Definition bst : Type := (point * bool)%type.
Definition addr : Type := (list op * res bst)%type.

Definition pushes (st : bst) (r : res (list op)) : addr :=
  match r with
  | Ok l => (l, Ok st)
  | Err e => ([], Err e)
  | Panic s => ([], Panic s)
  | OutOfFuel => ([], OutOfFuel)
  end.
Definition push1 (st : bst) (r : res op) : addr := pushes st (rmap (fun o => [o]) r).

Definition add (k : kwd) (args : list prim) (st : bst) : addr :=
  let '(last, compat) := st in
  match k with
  | Kb => ([OClose; OFillAndStroke NonZero], Ok st)
  | KB => ([OFillAndStroke NonZero], Ok st)
  | Kbstar => ([OClose; OFillAndStroke EvenOdd], Ok st)
  | KBstar => ([OFillAndStroke EvenOdd], Ok st)
  | KBDC => push1 st (do (t, a) <- name_ args; do (p, _) <- next a; Ok (OBeginMarkedContent t (Some p)))
  | KBI => ([], Err E_UNMODELLED)   (* handled by the token loop (inline_image reads the lexer) *)
  | KBMC => push1 st (do (t, _) <- name_ args; Ok (OBeginMarkedContent t None))
  | KBT => ([OBeginText], Ok st)
  | KBX => ([], Ok (last, true))
  | Kc =>
      match (do (c1, a) <- point_ args; do (c2, a) <- point_ a; do (p, _) <- point_ a; Ok (c1, c2, p)) with
      | Ok (c1, c2, p) => ([OCurveTo c1 c2 p], Ok (p, compat))
      | Err e => ([], Err e) | Panic s => ([], Panic s) | OutOfFuel => ([], OutOfFuel)
      end
  | Kcm => push1 st (do (m, _) <- matrix_ args; Ok (OTransform m))
  | KCS => push1 st (do (n, _) <- name_ args; Ok (OStrokeColorSpace n))
  | Kcs => push1 st (do (n, _) <- name_ args; Ok (OFillColorSpace n))
  | Kd => push1 st (do (p, a) <- next args;
                    do l <- match p with PArr l => Ok l | _ => Err E_UNEXPECTED end;
                    do pat <- map_res as_number l;
                    do (ph, _) <- number a; Ok (ODash pat ph))
  | Kd0 => ([], Ok st)
  | Kd1 => ([], Ok st)
  | KDo | KDo0 => push1 st (do (n, _) <- name_ args; Ok (OXObject n))
  | KDP => push1 st (do (t, a) <- name_ args; do (p, _) <- next a; Ok (OMarkedContentPoint t (Some p)))
  | KEI => ([], Err E_OTHER)
  | KEMC => ([OEndMarkedContent], Ok st)
  | KET => ([OEndText], Ok st)
  | KEX => ([], Ok (last, false))
  | Kf | KF => ([OFill NonZero], Ok st)
  | Kfstar => ([OFill EvenOdd], Ok st)
  | KG => push1 st (do (g, _) <- number args; Ok (OStrokeColor (CGray g)))
  | Kg => push1 st (do (g, _) <- number args; Ok (OFillColor (CGray g)))
  | Kgs => push1 st (do (n, _) <- name_ args; Ok (OGraphicsState n))
  | Kh => ([OClose], Ok st)
  | Ki => push1 st (do (t, _) <- number args; Ok (OFlatness t))
  | KID => ([], Err E_OTHER)
  | Kj => push1 st (do j <- enum_ line_join_codes args; Ok (OLineJoin j))
  | KJ => push1 st (do c <- enum_ line_cap_codes args; Ok (OLineCap c))
  | KK => push1 st (do (c, a) <- number args; do (m, a) <- number a; do (y, a) <- number a;
                    do (k, _) <- number a; Ok (OStrokeColor (CCmyk c m y k)))
  | Kk => push1 st (do (c, a) <- number args; do (m, a) <- number a; do (y, a) <- number a;
                    do (k, _) <- number a; Ok (OFillColor (CCmyk c m y k)))
  | Kl =>
      match point_ args with
      | Ok (p, _) => ([OLineTo p], Ok (p, compat))
      | Err e => ([], Err e) | Panic s => ([], Panic s) | OutOfFuel => ([], OutOfFuel)
      end
  | Km =>
      match point_ args with
      | Ok (p, _) => ([OMoveTo p], Ok (p, compat))
      | Err e => ([], Err e) | Panic s => ([], Panic s) | OutOfFuel => ([], OutOfFuel)
      end
  | KM => push1 st (do (l, _) <- number args; Ok (OMiterLimit l))
  | KMP => push1 st (do (t, _) <- name_ args; Ok (OMarkedContentPoint t None))
  | Kn => ([OEndPath], Ok st)
  | Kq => ([OSave], Ok st)
  | KQ => ([ORestore], Ok st)
  | Kre => push1 st (do (x, a) <- number args; do (y, a) <- number a; do (w, a) <- number a;
                     do (h, _) <- number a; Ok (ORect x y w h))
  | KRG => push1 st (do (r, a) <- number args; do (g, a) <- number a; do (b, _) <- number a;
                     Ok (OStrokeColor (CRgb r g b)))
  | Krg => push1 st (do (r, a) <- number args; do (g, a) <- number a; do (b, _) <- number a;
                     Ok (OFillColor (CRgb r g b)))
  | Kri => push1 st (do (s, _) <- name_ args;
                     match assoc_b s ri_table with Some t => Ok (ORenderingIntent t) | None => Err E_OTHER end)
  | Ks => ([OClose; OStroke], Ok st)
  | KS => ([OStroke], Ok st)
  | KSC | KSCN => ([OStrokeColor (COther args)], Ok st)
  | Ksc | Kscn => ([OFillColor (COther args)], Ok st)
  | Ksh => push1 st (do (n, _) <- name_ args; Ok (OShade n))
  | KTstar => ([OTextNewline], Ok st)
  | KTc => push1 st (do (f, _) <- number args; Ok (OCharSpacing f))
  | KTd => push1 st (do (t, _) <- point_ args; Ok (OMoveTextPosition t))
  | KTD => pushes st (do (t, _) <- point_ args; Ok [OLeading (fl_neg (py t)); OMoveTextPosition t])
  | KTf => push1 st (do (n, a) <- name_ args; do (s, _) <- number a; Ok (OTextFont n s))
  | KTj => push1 st (do (s, _) <- string_ args; Ok (OTextDraw s))
  | KTJ => push1 st (do l <- array_ args; do r <- map_res tda_of l; Ok (OTextDrawAdjusted r))
  | KTL => push1 st (do (f, _) <- number args; Ok (OLeading f))
  | KTm => push1 st (do (m, _) <- matrix_ args; Ok (OSetTextMatrix m))
  | KTr => push1 st (do m <- enum_ text_mode_codes args; Ok (OTextRenderMode m))
  | KTs => push1 st (do (f, _) <- number args; Ok (OTextRise f))
  | KTw => push1 st (do (f, _) <- number args; Ok (OWordSpacing f))
  | KTz => push1 st (do (f, _) <- number args; Ok (OTextScaling f))
  | Kv =>
      match (do (c2, a) <- point_ args; do (p, _) <- point_ a; Ok (c2, p)) with
      | Ok (c2, p) => ([OCurveTo last c2 p], Ok (p, compat))
      | Err e => ([], Err e) | Panic s => ([], Panic s) | OutOfFuel => ([], OutOfFuel)
      end
  | Kw => push1 st (do (f, _) <- number args; Ok (OLineWidth f))
  | KW => ([OClip NonZero], Ok st)
  | KWstar => ([OClip EvenOdd], Ok st)
  | Ky =>
      match (do (c1, a) <- point_ args; do (p, _) <- point_ a; Ok (c1, p)) with
      | Ok (c1, p) => ([OCurveTo c1 p p], Ok (p, compat))
      | Err e => ([], Err e) | Panic s => ([], Panic s) | OutOfFuel => ([], OutOfFuel)
      end
  | Kquote =>
      match string_ args with
      | Ok (s, _) => ([OTextNewline; OTextDraw s], Ok st)
      | Err e => ([OTextNewline], Err e)
      | Panic s => ([OTextNewline], Panic s) | OutOfFuel => ([OTextNewline], OutOfFuel)
      end
  | Kdquote =>
      match number args with
      | Ok (w, a) =>
          match number a with
          | Ok (c, a) =>
              match string_ a with
              | Ok (s, _) => ([OWordSpacing w; OCharSpacing c; OTextNewline; OTextDraw s], Ok st)
              | Err e => ([OWordSpacing w; OCharSpacing c; OTextNewline], Err e)
              | Panic s => ([OWordSpacing w; OCharSpacing c; OTextNewline], Panic s)
              | OutOfFuel => ([OWordSpacing w; OCharSpacing c; OTextNewline], OutOfFuel)
              end
          | Err e => ([OWordSpacing w], Err e)
          | Panic s => ([OWordSpacing w], Panic s) | OutOfFuel => ([OWordSpacing w], OutOfFuel)
          end
      | Err e => ([], Err e) | Panic s => ([], Panic s) | OutOfFuel => ([], OutOfFuel)
      end
  end.

(* the two catch-all arms of OpBuilder::add *)
Definition add_word (w : bytes) (args : list prim) (st : bst) : addr :=
  match lookup_kw w with
  | Some k => add k args st
  | None => if snd st then ([], Ok st) else ([], Err E_OTHER)
  end.

(* ------------------------------------------------------------------ *)
(** * content.rs: OpBuilder::parse over the lexed stream

    [TObj p]: parse_with_lexer returned the operand [p];  [TWord w]: it failed (not EOF) and
    lexer.next() returned the word [w];  [TRaw d]: the bytes between `ID` + one white-space
    byte and the first LF E I (only meaningful inside an inline image). *)
Inductive tok : Type := TObj (p : prim) | TWord (w : bytes) | TRaw (d : bytes).

(* IndexMap::insert: replace in place, else append *)
Fixpoint dict_insert (k : bytes) (v : prim) (d : list (bytes * prim)) : list (bytes * prim) :=
  match d with
  | [] => [(k, v)]
  | (k', v') :: t => if beqb k k' then (k, v) :: t else (k', v') :: dict_insert k v t
  end.

(* content.rs: expand_abbr_name *)
Fixpoint expand_abbr_name (n : bytes) (alt : list (bytes * bytes)) : bytes :=
  match alt with
  | [] => n
  | (p, r) :: t => if beqb n p then r else expand_abbr_name n t
  end.

(* resolve.options().allow_invalid_ops for NoResolve (ParseOptions::strict), regenerated from object/mod.rs *)
Definition allow_invalid_ops : bool := allow_invalid_ops_strict.

(* the `loop` of OpBuilder::parse; returns the operations pushed.  [buf] is `buffer`.
   [img = Some dict]: inside content.rs: inline_image (called by the "BI" arm), in its key/value
   loop with [dict] collected so far.  The typed reading of the image dictionary (ImageDict,
   ColorSpace, filters) is outside the model: the operation carries the key-expanded dictionary
   and the data; a malformed inline image is outside the modelled domain (E_UNMODELLED). *)
Fixpoint parse_toks (st : bst) (buf : list prim) (img : option (list (bytes * prim))) (ts : list tok)
  : res (list op) :=
  match img with
  | Some dict =>
      match ts with
      | TObj (PName k) :: TObj v :: r =>
          parse_toks st buf (Some (dict_insert (expand_abbr_name k inline_key_abbr) v dict)) r
      | TWord w :: TRaw d :: r =>
          if beqb w (kw_name KID)
          then do rest <- parse_toks st [] None r; Ok (OInlineImage dict d :: rest)
          else Err E_UNMODELLED
      | _ => Err E_UNMODELLED
      end
  | None =>
      match ts with
      | [] => Ok []
      | TObj p :: r => parse_toks st (buf ++ [p]) None r
      | TRaw _ :: _ => Err E_UNMODELLED
      | TWord w :: r =>
          if beqb w (kw_name KBI) then parse_toks st [] (Some []) r
          else
          let '(pushed, out) := add_word w buf st in   (* buffer.drain(..): emptied in every case *)
          match out with
          | Ok st' => do rest <- parse_toks st' [] None r; Ok (pushed ++ rest)
          | Err e => if allow_invalid_ops then do rest <- parse_toks st [] None r; Ok (pushed ++ rest)
                     else Err e
          | Panic s => Panic s
          | OutOfFuel => OutOfFuel
          end
      end
  end.

(* OpBuilder::new *)
Definition st0 : bst := (mkpt (FInt 0) (FInt 0), false).

(* content.rs: parse_ops on an already lexed stream *)
Definition parse_ops_toks (ts : list tok) : res (list op) := parse_toks st0 [] None ts.
