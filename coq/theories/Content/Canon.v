(** Content/Canon.v — the canonical text encoding of operation lists and token lists used by the
    harness protocol (one atom per field; prefix notation).  Mirrored by harness/src/modes/content.rs
    and tools/oracle/optable.py.

    atoms:  f<decimal text> (model) / F<8 hex f32 bits> (implementation)   number
            I<dec> integer   N<bytes> name   S<bytes> string   Z null   Bt / Bf   A<n> array of n   D<n> dict of n (N<key> value)…
            W0 EvenOdd / W1 NonZero      O0 / O1 <prim> option      L<n> list      CG / CR / CK / CO colour
            w<word> operator token       x<bytes> inline-image data token
    an operation is its constructor name followed by its fields in declaration order. *)
From Coq Require Import String.
From PdfV Require Import Base.Prelude Gen.Generated Content.Model.
Open Scope N_scope.

Definition E_CANON : N := 98.

(* ---------------- encoder ---------------- *)
Definition enc_fl (f : fl) : bytes := 102 :: fl_fmt f.
Definition enc_count (c : N) (n : nat) : bytes := c :: dec_of_N (N.of_nat n).

Fixpoint enc_prim (p : prim) : list bytes :=
  match p with
  | PNull => [[90]]
  | PBool true => [bs "Bt"]
  | PBool false => [bs "Bf"]
  | PInt z => [73 :: dec_of_Z z]
  | PReal f => [enc_fl f]
  | PName n => [78 :: n]
  | PStr s => [83 :: s]
  | PArr l => enc_count 65 (length l) :: (fix go (l : list prim) := match l with [] => [] | x :: t => enc_prim x ++ go t end) l
  | PDict d => enc_count 68 (length d) ::
      (fix go (d : list (bytes * prim)) := match d with [] => [] | (k, v) :: t => (78 :: k) :: enc_prim v ++ go t end) d
  end.

Definition enc_pt (p : point) : list bytes := [enc_fl (px p); enc_fl (py p)].
Definition enc_mat (m : matrix) : list bytes :=
  [enc_fl (ma m); enc_fl (mb m); enc_fl (mc m); enc_fl (md m); enc_fl (me m); enc_fl (mf m)].
Definition enc_wind (w : winding) : list bytes := [match w with EvenOdd => bs "W0" | NonZero => bs "W1" end].
Definition enc_opt (o : option prim) : list bytes :=
  match o with None => [bs "O0"] | Some p => bs "O1" :: enc_prim p end.
Definition enc_color (c : color) : list bytes :=
  match c with
  | CGray g => [bs "CG"; enc_fl g]
  | CRgb r g b => [bs "CR"; enc_fl r; enc_fl g; enc_fl b]
  | CCmyk c m y k => [bs "CK"; enc_fl c; enc_fl m; enc_fl y; enc_fl k]
  | COther args => bs "CO" :: enc_count 76 (length args) :: flat_map enc_prim args
  end.
Definition enc_tda (x : tda) : list bytes :=
  match x with TdaText s => [83 :: s] | TdaSpacing f => [enc_fl f] end.
Definition enc_N (n : N) : list bytes := [73 :: dec_of_N n].

Definition enc_op (o : op) : list bytes :=
  match o with
  | OBeginMarkedContent tag props => bs "BeginMarkedContent" :: (78 :: tag) :: enc_opt props
  | OEndMarkedContent => [bs "EndMarkedContent"]
  | OMarkedContentPoint tag props => bs "MarkedContentPoint" :: (78 :: tag) :: enc_opt props
  | OClose => [bs "Close"]
  | OMoveTo p => bs "MoveTo" :: enc_pt p
  | OLineTo p => bs "LineTo" :: enc_pt p
  | OCurveTo c1 c2 p => bs "CurveTo" :: enc_pt c1 ++ enc_pt c2 ++ enc_pt p
  | ORect x y w h => [bs "Rect"; enc_fl x; enc_fl y; enc_fl w; enc_fl h]
  | OEndPath => [bs "EndPath"]
  | OStroke => [bs "Stroke"]
  | OFillAndStroke w => bs "FillAndStroke" :: enc_wind w
  | OFill w => bs "Fill" :: enc_wind w
  | OShade n => [bs "Shade"; 78 :: n]
  | OClip w => bs "Clip" :: enc_wind w
  | OSave => [bs "Save"]
  | ORestore => [bs "Restore"]
  | OTransform m => bs "Transform" :: enc_mat m
  | OLineWidth w => [bs "LineWidth"; enc_fl w]
  | ODash pat ph => bs "Dash" :: enc_count 76 (length pat) :: List.map enc_fl pat ++ [enc_fl ph]
  | OLineJoin j => bs "LineJoin" :: enc_N j
  | OLineCap c => bs "LineCap" :: enc_N c
  | OMiterLimit l => [bs "MiterLimit"; enc_fl l]
  | OFlatness t => [bs "Flatness"; enc_fl t]
  | OGraphicsState n => [bs "GraphicsState"; 78 :: n]
  | OStrokeColor c => bs "StrokeColor" :: enc_color c
  | OFillColor c => bs "FillColor" :: enc_color c
  | OFillColorSpace n => [bs "FillColorSpace"; 78 :: n]
  | OStrokeColorSpace n => [bs "StrokeColorSpace"; 78 :: n]
  | ORenderingIntent i => [bs "RenderingIntent"; 78 :: i]
  | OBeginText => [bs "BeginText"]
  | OEndText => [bs "EndText"]
  | OCharSpacing f => [bs "CharSpacing"; enc_fl f]
  | OWordSpacing f => [bs "WordSpacing"; enc_fl f]
  | OTextScaling f => [bs "TextScaling"; enc_fl f]
  | OLeading f => [bs "Leading"; enc_fl f]
  | OTextFont n s => [bs "TextFont"; 78 :: n; enc_fl s]
  | OTextRenderMode m => bs "TextRenderMode" :: enc_N m
  | OTextRise f => [bs "TextRise"; enc_fl f]
  | OMoveTextPosition t => bs "MoveTextPosition" :: enc_pt t
  | OSetTextMatrix m => bs "SetTextMatrix" :: enc_mat m
  | OTextNewline => [bs "TextNewline"]
  | OTextDraw s => [bs "TextDraw"; 83 :: s]
  | OTextDrawAdjusted l => bs "TextDrawAdjusted" :: enc_count 76 (length l) :: flat_map enc_tda l
  | OXObject n => [bs "XObject"; 78 :: n]
  | OInlineImage d data => bs "InlineImage" :: enc_prim (PDict d) ++ [120 :: data]
  end.

Definition enc_ops (l : list op) : list bytes := flat_map enc_op l.

(* ---------------- decoder ---------------- *)
Definition dec_fl (t : bytes) : fl :=
  if beqb t neg_zero then FReal t
  else if memN 46 t then FReal t
  else FInt (Z_of_dec t).

Definition P (A : Type) : Type := list bytes -> res (A * list bytes).

Definition g_tagged {A} (c : N) (f : bytes -> A) : P A := fun fs =>
  match fs with
  | (c' :: body) :: r => if c' =? c then Ok (f body, r) else Err E_CANON
  | _ => Err E_CANON
  end.
Definition g_fl : P fl := g_tagged 102 dec_fl.
Definition g_name : P bytes := g_tagged 78 (fun b => b).
Definition g_str : P bytes := g_tagged 83 (fun b => b).
Definition g_int : P Z := g_tagged 73 Z_of_dec.
Definition g_count (c : N) : P nat := g_tagged c (fun b => N.to_nat (N_of_dec b)).

Definition g_pt : P point := fun fs =>
  do (x, fs) <- g_fl fs; do (y, fs) <- g_fl fs; Ok (mkpt x y, fs).
Definition g_mat : P matrix := fun fs =>
  do (a, fs) <- g_fl fs; do (b, fs) <- g_fl fs; do (c, fs) <- g_fl fs;
  do (d, fs) <- g_fl fs; do (e, fs) <- g_fl fs; do (f, fs) <- g_fl fs;
  Ok (mkmat a b c d e f, fs).
Definition g_wind : P winding := fun fs =>
  match fs with
  | a :: r => if beqb a (bs "W0") then Ok (EvenOdd, r) else if beqb a (bs "W1") then Ok (NonZero, r) else Err E_CANON
  | [] => Err E_CANON
  end.

Fixpoint g_rep {A} (g : P A) (n : nat) : P (list A) := fun fs =>
  match n with
  | O => Ok ([], fs)
  | S k => do (x, fs) <- g fs; do (l, fs) <- g_rep g k fs; Ok (x :: l, fs)
  end.

Fixpoint g_prim (fuel : nat) : P prim := fun fs =>
  match fuel with
  | O => OutOfFuel
  | S fuel =>
      match fs with
      | (c :: body) :: r =>
          if c =? 90 then Ok (PNull, r)
          else if c =? 66 then Ok (PBool (beqb body [116]), r)
          else if c =? 73 then Ok (PInt (Z_of_dec body), r)
          else if c =? 102 then Ok (PReal (dec_fl body), r)
          else if c =? 78 then Ok (PName body, r)
          else if c =? 83 then Ok (PStr body, r)
          else if c =? 65 then
            do (l, r) <- g_rep (g_prim fuel) (N.to_nat (N_of_dec body)) r; Ok (PArr l, r)
          else if c =? 68 then
            do (l, r) <- g_rep (fun fs => do (k, fs) <- g_name fs; do (v, fs) <- g_prim fuel fs; Ok ((k, v), fs))
                                (N.to_nat (N_of_dec body)) r;
            Ok (PDict l, r)
          else Err E_CANON
      | _ => Err E_CANON
      end
  end.

Definition g_opt (fuel : nat) : P (option prim) := fun fs =>
  match fs with
  | a :: r => if beqb a (bs "O0") then Ok (None, r)
              else if beqb a (bs "O1") then do (p, r) <- g_prim fuel r; Ok (Some p, r)
              else Err E_CANON
  | [] => Err E_CANON
  end.

Definition g_color (fuel : nat) : P color := fun fs =>
  match fs with
  | a :: r =>
      if beqb a (bs "CG") then do (g, r) <- g_fl r; Ok (CGray g, r)
      else if beqb a (bs "CR") then do (x, r) <- g_fl r; do (y, r) <- g_fl r; do (z, r) <- g_fl r; Ok (CRgb x y z, r)
      else if beqb a (bs "CK") then do (c, r) <- g_fl r; do (m, r) <- g_fl r; do (y, r) <- g_fl r; do (k, r) <- g_fl r; Ok (CCmyk c m y k, r)
      else if beqb a (bs "CO") then do (n, r) <- g_count 76 r; do (l, r) <- g_rep (g_prim fuel) n r; Ok (COther l, r)
      else Err E_CANON
  | [] => Err E_CANON
  end.

Definition g_tda : P tda := fun fs =>
  match fs with
  | (c :: body) :: r => if c =? 83 then Ok (TdaText body, r) else if c =? 102 then Ok (TdaSpacing (dec_fl body), r) else Err E_CANON
  | _ => Err E_CANON
  end.

Definition g_N : P N := fun fs => do (z, fs) <- g_int fs; Ok (Z.to_N z, fs).

Definition ret {A B} (f : A -> B) (g : P A) : P B := fun fs => do (x, fs) <- g fs; Ok (f x, fs).

Definition isb (c : bytes) (s : string) : bool := beqb c (bs s).

Definition g_op (fuel : nat) : P op := fun fs =>
  match fs with
  | [] => Err E_CANON
  | c :: r =>
      if isb c "BeginMarkedContent" then do (t, r) <- g_name r; do (p, r) <- g_opt fuel r; Ok (OBeginMarkedContent t p, r)
      else if isb c "EndMarkedContent" then Ok (OEndMarkedContent, r)
      else if isb c "MarkedContentPoint" then do (t, r) <- g_name r; do (p, r) <- g_opt fuel r; Ok (OMarkedContentPoint t p, r)
      else if isb c "Close" then Ok (OClose, r)
      else if isb c "MoveTo" then ret OMoveTo g_pt r
      else if isb c "LineTo" then ret OLineTo g_pt r
      else if isb c "CurveTo" then do (a, r) <- g_pt r; do (b, r) <- g_pt r; do (p, r) <- g_pt r; Ok (OCurveTo a b p, r)
      else if isb c "Rect" then do (x, r) <- g_fl r; do (y, r) <- g_fl r; do (w, r) <- g_fl r; do (h, r) <- g_fl r; Ok (ORect x y w h, r)
      else if isb c "EndPath" then Ok (OEndPath, r)
      else if isb c "Stroke" then Ok (OStroke, r)
      else if isb c "FillAndStroke" then ret OFillAndStroke g_wind r
      else if isb c "Fill" then ret OFill g_wind r
      else if isb c "Shade" then ret OShade g_name r
      else if isb c "Clip" then ret OClip g_wind r
      else if isb c "Save" then Ok (OSave, r)
      else if isb c "Restore" then Ok (ORestore, r)
      else if isb c "Transform" then ret OTransform g_mat r
      else if isb c "LineWidth" then ret OLineWidth g_fl r
      else if isb c "Dash" then do (n, r) <- g_count 76 r; do (l, r) <- g_rep g_fl n r; do (ph, r) <- g_fl r; Ok (ODash l ph, r)
      else if isb c "LineJoin" then ret OLineJoin g_N r
      else if isb c "LineCap" then ret OLineCap g_N r
      else if isb c "MiterLimit" then ret OMiterLimit g_fl r
      else if isb c "Flatness" then ret OFlatness g_fl r
      else if isb c "GraphicsState" then ret OGraphicsState g_name r
      else if isb c "StrokeColor" then ret OStrokeColor (g_color fuel) r
      else if isb c "FillColor" then ret OFillColor (g_color fuel) r
      else if isb c "FillColorSpace" then ret OFillColorSpace g_name r
      else if isb c "StrokeColorSpace" then ret OStrokeColorSpace g_name r
      else if isb c "RenderingIntent" then ret ORenderingIntent g_name r
      else if isb c "BeginText" then Ok (OBeginText, r)
      else if isb c "EndText" then Ok (OEndText, r)
      else if isb c "CharSpacing" then ret OCharSpacing g_fl r
      else if isb c "WordSpacing" then ret OWordSpacing g_fl r
      else if isb c "TextScaling" then ret OTextScaling g_fl r
      else if isb c "Leading" then ret OLeading g_fl r
      else if isb c "TextFont" then do (n, r) <- g_name r; do (s, r) <- g_fl r; Ok (OTextFont n s, r)
      else if isb c "TextRenderMode" then ret OTextRenderMode g_N r
      else if isb c "TextRise" then ret OTextRise g_fl r
      else if isb c "MoveTextPosition" then ret OMoveTextPosition g_pt r
      else if isb c "SetTextMatrix" then ret OSetTextMatrix g_mat r
      else if isb c "TextNewline" then Ok (OTextNewline, r)
      else if isb c "TextDraw" then ret OTextDraw g_str r
      else if isb c "TextDrawAdjusted" then do (n, r) <- g_count 76 r; do (l, r) <- g_rep g_tda n r; Ok (OTextDrawAdjusted l, r)
      else if isb c "XObject" then ret OXObject g_name r
      else if isb c "InlineImage" then
        do (p, r) <- g_prim fuel r;
        match p, r with
        | PDict d, (120 :: data) :: r' => Ok (OInlineImage d data, r')
        | _, _ => Err E_CANON
        end
      else Err E_CANON
  end.

Fixpoint g_ops (fuel : nat) (fs : list bytes) : res (list op) :=
  match fuel with
  | O => OutOfFuel
  | S f =>
      match fs with
      | [] => Ok []
      | _ => do (o, r) <- g_op (S (length fs)) fs; do l <- g_ops f r; Ok (o :: l)
      end
  end.
Definition dec_ops (fs : list bytes) : res (list op) := g_ops (S (length fs)) fs.

(* tokens: w<word>, x<raw>, else an operand *)
Fixpoint g_toks (fuel : nat) (fs : list bytes) : res (list tok) :=
  match fuel with
  | O => OutOfFuel
  | S f =>
      match fs with
      | [] => Ok []
      | (c :: body) :: r =>
          if c =? 119 then do l <- g_toks f r; Ok (TWord body :: l)
          else if c =? 120 then do l <- g_toks f r; Ok (TRaw body :: l)
          else do (p, r) <- g_prim (S (length fs)) fs; do l <- g_toks f r; Ok (TObj p :: l)
      | [] :: _ => Err E_CANON
      end
  end.
Definition dec_toks (fs : list bytes) : res (list tok) := g_toks (S (length fs)) fs.
