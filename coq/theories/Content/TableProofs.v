(** Content/TableProofs.v — the operator tables regenerated from content.rs against the model and against
    ISO 32000-1 Annex A (lemmas by computation on the generated terms), the shorthand laws of the standard
    for the model's reader, and the refutations behind the open findings. *)
From Coq Require Import String.
From PdfV Require Import Base.Prelude Gen.Generated Content.Model Content.Canon Content.Proofs.
Open Scope N_scope.

(* ------------------------------------------------------------------ *)
(** * ISO 32000-1 Annex A, Table A.1: the 73 operators (written from the standard) *)
Definition iso_keywords : list bytes :=
  List.map bs ["b"; "B"; "b*"; "B*"; "BDC"; "BI"; "BMC"; "BT"; "BX"; "c"; "cm"; "CS"; "cs"; "d"; "d0"; "d1"; "Do";
     "DP"; "EI"; "EMC"; "ET"; "EX"; "f"; "F"; "f*"; "G"; "g"; "gs"; "h"; "i"; "ID"; "j"; "J"; "K"; "k"; "l"; "m";
     "M"; "MP"; "n"; "q"; "Q"; "re"; "RG"; "rg"; "ri"; "s"; "S"; "SC"; "sc"; "SCN"; "scn"; "sh"; "T*"; "Tc"; "Td";
     "TD"; "Tf"; "Tj"; "TJ"; "TL"; "Tm"; "Tr"; "Ts"; "Tw"; "Tz"; "v"; "w"; "W"; "W*"; "y"; "'"]%string ++ [[34]].

Lemma iso_keywords_count : length iso_keywords = 73%nat.
Proof. reflexivity. Qed.

(** every operator of the standard has an arm in OpBuilder::add (source table) and in the model *)
Lemma keywords_cover_iso :
  forallb (fun kw => existsb (beqb kw) (List.map fst op_read_table) &&
                     match lookup_kw kw with Some _ => true | None => false end) iso_keywords = true.
Proof. vm_compute. reflexivity. Qed.

(* ------------------------------------------------------------------ *)
(** * the reader's arms as extracted from the source = the model's [add] *)

(* a sample operand for each shape letter, distinct per position *)
Definition sample_arg (c : N) (i : N) : list prim :=
  if c =? 78 then [PInt (Z.of_N (10 + i))]                 (* N number *)
  else if c =? 47 then [PName (bs "Perceptual")]           (* / name *)
  else if c =? 83 then [PStr [115; 48 + i]]                (* S string *)
  else if c =? 79 then [PName [111; 48 + i]]               (* O any object *)
  else if c =? 65 then [PArr [PInt 21; PInt 22]]           (* A array of numbers *)
  else if c =? 73 then [PInt 1]                            (* I integer *)
  else if c =? 74 then [PArr [PInt 5; PStr [120]]]         (* J TJ array *)
  else [PInt 10; PName [112]].                             (* * all operands *)

Fixpoint sample_args (shape : bytes) (i : N) : list prim :=
  match shape with [] => [] | c :: t => sample_arg c i ++ sample_args t (i + 1) end.

Definition sample_last : point := mkpt (FInt 7777) (FInt 8888).

(* the atoms a slot code of the extracted table stands for (gen/extract_content.py: slot_code) *)
Definition slot_atoms (args : list prim) (s : N) : list bytes :=
  if s <? 100 then
    match nth_error args (N.to_nat s) with
    | Some (PInt z) => [enc_fl (FInt z)]
    | Some (PArr l) => enc_count 76 (length l) ::
                       flat_map (fun p => match p with PInt z => [enc_fl (FInt z)] | _ => enc_prim p end) l
    | Some p => enc_prim p
    | None => [[63]]
    end
  else if s =? 100 then [enc_fl (FInt 7777)] else if s =? 101 then [enc_fl (FInt 8888)]
  else if s =? 110 then [bs "O1"] else if s =? 111 then [bs "O0"]
  else if s =? 120 then [bs "W1"] else if s =? 121 then [bs "W0"]
  else if s =? 130 then [bs "CG"] else if s =? 131 then [bs "CR"] else if s =? 132 then [bs "CK"]
  else if s =? 133 then [bs "CO"]
  else if s =? 134 then enc_count 76 (length args) :: flat_map enc_prim args
  else if (200 <=? s) && (s <? 300) then
    match nth_error args (N.to_nat (s - 200)) with
    | Some (PInt z) => [enc_fl (fl_neg (FInt z))]
    | _ => [[63]]
    end
  else [[63]].

(* option / integer-enum / name fields are written by the encoder with their own tags *)
Definition fix_atom (shape : bytes) (a : bytes) : bytes := a.

Definition expected_push (args : list prim) (p : N * list N) : list bytes :=
  nth (N.to_nat (fst p)) op_ctor_names [] :: flat_map (slot_atoms args) (snd p).

Definition expected_state (args : list prim) (eff : list N) (st : bst) : option (res bst) :=
  match eff with
  | [e] => if e =? 0 then Some (Ok st) else if e =? 1 then Some (Ok (fst st, true))
           else if e =? 2 then Some (Ok (fst st, false)) else if e =? 3 then Some (Err E_OTHER) else None
  | [_; sx; sy] =>
      match nth_error args (N.to_nat sx), nth_error args (N.to_nat sy) with
      | Some (PInt x), Some (PInt y) => Some (Ok (mkpt (FInt x) (FInt y), snd st))
      | _, _ => None
      end
  | _ => None
  end.

Definition res_bst_eqb (a b : res bst) : bool :=
  match a, b with
  | Ok (p, c), Ok (q, d) => Bool.eqb c d && beqb (List.concat (enc_pt p)) (List.concat (enc_pt q))
  | Err x, Err y => x =? y
  | _, _ => false
  end.

Fixpoint lbeqb (a b : list bytes) : bool :=
  match a, b with
  | [], [] => true
  | x :: a', y :: b' => beqb x y && lbeqb a' b'
  | _, _ => false
  end.

(* integer-enum operands are encoded as I<n>, not as numbers: the I shape's slot 0 *)
Definition enum_fix (shape : bytes) (l : list bytes) : list bytes :=
  if beqb shape [73] then List.map (fun a => match a with 102 :: t => 73 :: t | _ => a end) l else l.

Definition check_read_entry (e : bytes * (bytes * (list (N * list N) * list N))) : bool :=
  let '(kw, (shape, (pushes, eff))) := e in
  if beqb kw (kw_name KBI) then true else
  let args := sample_args shape 0 in
  let st := (sample_last, false) in
  let '(pushed, out) := add_word kw args st in
  lbeqb (enc_ops pushed) (enum_fix shape (flat_map (expected_push args) pushes)) &&
  match expected_state args eff st with Some r => res_bst_eqb out r | None => false end.

(** every arm of OpBuilder::add, as the extractor reads it from the source (keyword, operand kinds, the
    constructors pushed with the operand each field takes, the effect on last / compability_section),
    is what the model's [add] does *)
Lemma reader_matches_source : forallb check_read_entry op_read_table = true.
Proof. vm_compute. reflexivity. Qed.

(** the model knows no keyword the source does not have *)
Lemma model_keywords_in_source :
  forallb (fun k => existsb (beqb (kw_name k)) (List.map fst op_read_table)) all_kwd = true.
Proof. vm_compute. reflexivity. Qed.

(* ------------------------------------------------------------------ *)
(** * writer and reader agree per operator (both tables from the source) *)

Definition check_write_entry (e : N * (list N * (bytes * (list N * N)))) : bool :=
  let '(cid, (tag, (kw, (slots, adv)))) := e in
  match kw with
  | [] => cid =? 44                                  (* InlineImage: unimplemented!() *)
  | _ =>
      existsb (fun r : bytes * (bytes * (list (N * list N) * list N)) =>
                 let '(kw', (shape, (pushes, _))) := r in
                 beqb kw kw' &&
                 match pushes with
                 | (c, _) :: more => (c =? cid) && (N.of_nat (length more) =? adv) &&
                                     ((N.of_nat (length slots) =? N.of_nat (length shape)) || beqb shape [42])
                 | [] => false
                 end) op_read_table
  end.

(** for every branch of serialize_ops: the keyword it writes is read by an arm whose first operation is the
    same constructor, which pushes [advance - 1] further operations and takes as many operands as are written *)
Lemma writer_reader_agree : forallb check_write_entry op_write_table = true.
Proof. vm_compute. reflexivity. Qed.

(** every constructor of Op has a branch in serialize_ops *)
Lemma writer_covers_constructors :
  forallb (fun i => existsb (fun e : N * (list N * (bytes * (list N * N))) => fst e =? i) op_write_table)
          (seqN 0 (length op_ctor_names)) = true.
Proof. vm_compute. reflexivity. Qed.

(* ------------------------------------------------------------------ *)
(** * inline image abbreviations: Tables 93 and 94 of the standard *)
Definition pairs (l : list (string * string)) : list (bytes * bytes) := List.map (fun p => (bs (fst p), bs (snd p))) l.
Definition iso_inline_keys := pairs [("BPC", "BitsPerComponent"); ("CS", "ColorSpace"); ("D", "Decode"); ("DP", "DecodeParms");
  ("F", "Filter"); ("H", "Height"); ("IM", "ImageMask"); ("I", "Interpolate"); ("W", "Width")]%string.
Definition iso_inline_cs := pairs [("G", "DeviceGray"); ("RGB", "DeviceRGB"); ("CMYK", "DeviceCMYK"); ("I", "Indexed")]%string.
Definition iso_inline_filters := pairs [("AHx", "ASCIIHexDecode"); ("A85", "ASCII85Decode"); ("LZW", "LZWDecode"); ("Fl", "FlateDecode");
  ("RL", "RunLengthDecode"); ("CCF", "CCITTFaxDecode"); ("DCT", "DCTDecode")]%string.

Definition same_map (iso src : list (bytes * bytes)) : bool :=
  forallb (fun p => match assoc_b (fst p) src with Some r => beqb r (snd p) | None => false end) iso &&
  forallb (fun p => match assoc_b (fst p) iso with Some r => beqb r (snd p) | None => false end) src.

Lemma inline_abbreviations :
  same_map iso_inline_keys inline_key_abbr && same_map iso_inline_cs inline_cs_abbr &&
  same_map iso_inline_filters inline_filter_abbr = true.
Proof. vm_compute. reflexivity. Qed.

(** rendering intents (Table 70): from_str and to_str are inverse on exactly the four standard names *)
Lemma intents_iso :
  same_map (pairs [("AbsoluteColorimetric", "AbsoluteColorimetric"); ("RelativeColorimetric", "RelativeColorimetric");
                   ("Saturation", "Saturation"); ("Perceptual", "Perceptual")]%string) ri_table = true.
Proof. vm_compute. reflexivity. Qed.

(** line cap / join codes (Tables 54, 55) read and written identically *)
Lemma cap_join_codes :
  forallb (fun j => enum_okb line_join_codes j && enum_okb line_cap_codes j) [0; 1; 2] = true.
Proof. vm_compute. reflexivity. Qed.

(* ------------------------------------------------------------------ *)
(** * the standard's definitions of the shorthand operators hold of the reader, for all operands *)

Definition pushed (k : kwd) (args : list prim) (st : bst) : list op := fst (add k args st).

Theorem table_shorthands : forall st,
  (* Table 60: s = h S, b = h B, b* = h B*, F = f *)
  (forall a, pushed Ks a st = pushed Kh a st ++ pushed KS a st) /\
  (forall a, pushed Kb a st = pushed Kh a st ++ pushed KB a st) /\
  (forall a, pushed Kbstar a st = pushed Kh a st ++ pushed KBstar a st) /\
  (forall a, add KF a st = add Kf a st) /\
  (* Table 109: quote = T* Tj;  double quote = Tw Tc quote *)
  (forall a, pushed Kquote a st = pushed KTstar [] st ++ pushed KTj a st) /\
  (forall w c s, pushed Kdquote [pnum w; pnum c; PStr s] st =
                 pushed KTw [pnum w] st ++ pushed KTc [pnum c] st ++ pushed Kquote [PStr s] st) /\
  (* Table 108: tx ty TD = -ty TL, tx ty Td *)
  (forall x y, pushed KTD [pnum x; pnum y] st = pushed KTL [pnum (fl_neg y)] st ++ pushed KTd [pnum x; pnum y] st) /\
  (* Table 59: v uses the current point as first control point, y uses (x3, y3) as second *)
  (forall x2 y2 x3 y3, add Kv [pnum x2; pnum y2; pnum x3; pnum y3] st =
                       add Kc [pnum (px (fst st)); pnum (py (fst st)); pnum x2; pnum y2; pnum x3; pnum y3] st) /\
  (forall x1 y1 x3 y3, add Ky [pnum x1; pnum y1; pnum x3; pnum y3] st =
                       add Kc [pnum x1; pnum y1; pnum x3; pnum y3; pnum x3; pnum y3] st).
Proof.
  intros [[lx ly] compat]. unfold pushed. repeat split; intros; cbn [add fst snd px py].
  - unfold push1, pushes. destruct (string_ a) as [[s r]| | |]; reflexivity.
  - unfold push1, pushes. rewrite !number_pnum. reflexivity.
  - unfold push1, pushes. rewrite !point_num2, number_pnum. reflexivity.
  - rewrite !point_num2. cbn [bind]. rewrite !point_num2. cbn [bind]. rewrite !point_num2. reflexivity.
  - rewrite !point_num2. cbn [bind]. rewrite !point_num2. cbn [bind]. rewrite !point_num2. reflexivity.
Qed.

(** operands are taken in order: each plain operator builds its operation from the operands as written
    (checked against the source table by [reader_matches_source]; stated here for the path operators) *)
Theorem table_in_order : forall st x1 y1 x2 y2 x3 y3,
  pushed Kc [pnum x1; pnum y1; pnum x2; pnum y2; pnum x3; pnum y3] st = [OCurveTo (mkpt x1 y1) (mkpt x2 y2) (mkpt x3 y3)] /\
  pushed Km [pnum x1; pnum y1] st = [OMoveTo (mkpt x1 y1)] /\
  pushed Kre [pnum x1; pnum y1; pnum x2; pnum y2] st = [ORect x1 y1 x2 y2] /\
  pushed Kcm [pnum x1; pnum y1; pnum x2; pnum y2; pnum x3; pnum y3] st = [OTransform (mkmat x1 y1 x2 y2 x3 y3)].
Proof.
  intros [[lx ly] compat] *. unfold pushed. repeat split; cbn [add fst].
  - rewrite !point_num2. cbn [bind]. rewrite !point_num2. cbn [bind]. rewrite !point_num2. reflexivity.
  - rewrite !point_num2. reflexivity.
  - unfold push1, pushes. rewrite !number_pnum. cbn [bind]. rewrite !number_pnum. cbn [bind].
    rewrite !number_pnum. cbn [bind]. rewrite !number_pnum. reflexivity.
  - unfold push1, pushes, matrix_. rewrite !number_pnum. cbn [bind]. rewrite !number_pnum. cbn [bind].
    rewrite !number_pnum. cbn [bind]. rewrite !number_pnum. cbn [bind]. rewrite !number_pnum. cbn [bind].
    rewrite !number_pnum. reflexivity.
Qed.

(* ------------------------------------------------------------------ *)
(** * the full statement of the table property and where it fails *)

(** necessary for "every operator of the table parses to the operations the standard defines": applied to
    well-formed operands, every operator other than the section brackets BX/EX and the inline-image
    keywords yields at least one operation *)
Definition silent_ok : list bytes := List.map bs ["BX"; "EX"; "BI"; "ID"; "EI"]%string.
Definition yields (kw : bytes) : bool :=
  match List.find (fun e : bytes * (bytes * (list (N * list N) * list N)) => beqb kw (fst e)) op_read_table with
  | Some (_, (shape, _)) => match fst (add_word kw (sample_args shape 0) (sample_last, false)) with [] => false | _ => true end
  | None => false
  end.
Definition C08_table_full_statement : Prop :=
  forall kw, In kw iso_keywords -> existsb (beqb kw) silent_ok = false -> yields kw = true.

Definition is_d0_d1 (kw : bytes) : bool := beqb kw (bs "d0") || beqb kw (bs "d1").

Lemma table_yields : forall kw, In kw iso_keywords -> existsb (beqb kw) silent_ok = false ->
  is_d0_d1 kw = false -> yields kw = true.
Proof.
  assert (H : forallb (fun kw => existsb (beqb kw) silent_ok || is_d0_d1 kw || yields kw) iso_keywords = true)
    by (vm_compute; reflexivity).
  intros kw Hin Hs Hd. rewrite forallb_forall in H. specialize (H kw Hin). rewrite Hs, Hd in H. exact H.
Qed.

Lemma table_d0_d1_refuted : ~ C08_table_full_statement.
Proof.
  intros H. specialize (H (bs "d0")). assert (Hy : yields (bs "d0") = false) by (vm_compute; reflexivity).
  rewrite H in Hy; [discriminate| |vm_compute; reflexivity].
  vm_compute. tauto.
Qed.

(** Table 106: the text rendering modes are 0..7 *)
Definition C08_table_Tr_full_statement : Prop :=
  forall m, m < 8 -> forall st, pushed KTr [PInt (Z.of_N m)] st = [OTextRenderMode m].
Lemma table_Tr : forall m, enum_okb text_mode_codes m = true -> forall st, pushed KTr [PInt (Z.of_N m)] st = [OTextRenderMode m].
Proof. intros m H [l c]. unfold pushed. cbn [add push1 pushes]. rewrite (enum_ok _ _ _ H). reflexivity. Qed.
(** … and all eight exist (C08-f, fixed: TextMode has the variants of modes 6 and 7) *)
Lemma table_Tr_full : C08_table_Tr_full_statement.
Proof.
  intros m Hm st. apply table_Tr.
  assert (In m (seqN 0 8)) as Hin by (apply seqN_In; cbn; lia).
  assert (forallb (enum_okb text_mode_codes) (seqN 0 8) = true) as Hall by (vm_compute; reflexivity).
  rewrite forallb_forall in Hall. apply Hall. exact Hin.
Qed.

(** Table 59: after h the current point is the start of the subpath; the builder's `last` stays at the
    end point of the last segment, so a following v is expanded from the wrong point *)
Definition iso_cp_after_m_l_h (p0 p1 : point) : point := p0.
Lemma cur_point_iso_refuted :
  exists ts, parse_ops_toks ts =
             Ok [OMoveTo (mkpt (FInt 1) (FInt 1)); OLineTo (mkpt (FInt 5) (FInt 5)); OClose;
                 OCurveTo (mkpt (FInt 5) (FInt 5)) (mkpt (FInt 2) (FInt 2)) (mkpt (FInt 3) (FInt 3))] /\
             iso_cp_after_m_l_h (mkpt (FInt 1) (FInt 1)) (mkpt (FInt 5) (FInt 5)) <> mkpt (FInt 5) (FInt 5).
Proof.
  exists [TObj (PInt 1); TObj (PInt 1); TWord (bs "m"); TObj (PInt 5); TObj (PInt 5); TWord (bs "l"); TWord (bs "h");
          TObj (PInt 2); TObj (PInt 2); TObj (PInt 3); TObj (PInt 3); TWord (bs "v")].
  split; [vm_compute; reflexivity|discriminate].
Qed.
