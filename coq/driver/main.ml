(* driver for the extracted model: `mode hexfield …` per line -> one result line.
   Everything except I/O and byte<->N conversion is extracted code. *)
open Model

let rec pos_of_int i =
  if i = 1 then XH else if i land 1 = 0 then XO (pos_of_int (i lsr 1)) else XI (pos_of_int (i lsr 1))
let n_of_int i = if i = 0 then N0 else Npos (pos_of_int i)
let rec int_of_pos = function XH -> 1 | XO p -> 2 * int_of_pos p | XI p -> 2 * int_of_pos p + 1
let int_of_n = function N0 -> 0 | Npos p -> int_of_pos p
(* numbers in Err/Panic may be large: print in decimal via a safe conversion *)
let string_of_n n = string_of_int (int_of_n n)

let hexval c = match c with
  | '0'..'9' -> Char.code c - 48 | 'a'..'f' -> Char.code c - 87 | 'A'..'F' -> Char.code c - 55
  | _ -> failwith "hex"

let field_of_hex s =
  if s = "-" then [] else begin
    let n = String.length s / 2 in
    let rec go i acc = if i < 0 then acc else
      go (i - 1) (n_of_int (hexval s.[2*i] * 16 + hexval s.[2*i+1]) :: acc) in
    go (n - 1) []
  end

let hex_of_field f =
  if f = [] then "-" else begin
    let b = Buffer.create 64 in
    List.iter (fun x -> let i = int_of_n x in
      if i > 255 then Buffer.add_string b "??" else Buffer.add_string b (Printf.sprintf "%02x" i)) f;
    Buffer.contents b
  end

let () =
  try
    while true do
      let line = input_line stdin in
      let parts = List.filter (fun s -> s <> "") (String.split_on_char ' ' line) in
      (match parts with
       | [] -> print_string "NOMODE\n"
       | mode :: fs ->
         (match Dispatch.dispatch mode with
          | None -> print_string "NOMODE\n"
          | Some f ->
            (match (try Some (List.map field_of_hex fs) with _ -> None) with
             | None -> print_string "BADINPUT\n"
             | Some fields ->
               (match f fields with
                | Ok out -> print_string ("OK " ^ String.concat " " (List.map hex_of_field out) ^ "\n")
                | Err e -> print_string ("ERR " ^ string_of_n e ^ "\n")
                | Panic s -> print_string ("PANIC " ^ string_of_n s ^ "\n")
                | OutOfFuel -> print_string "FUEL\n"))));
      flush stdout
    done
  with End_of_file -> ()
